"""Batch driver shared by all checks.

usage:  python -m sim.runner <ID> [--tier quick|thorough] [--replay FILE]
                                  [--panel-child] [--runs N] [--no-selftest]

exit 0  property held on everything explored (KNOWN-FINDING lines allowed)
exit 1  `VIOLATION property=<id> replay=<path>` printed
exit 3  harness error / determinism self-test failed / timeout  (never a verdict)
"""
from __future__ import annotations

import argparse
import concurrent.futures as cf
import faulthandler
import importlib
import json
import multiprocessing as mp
import os
import subprocess
import sys
import time
import traceback

from sim import kernel  # sets thread env vars before numpy import
from sim.kernel import dump_plan, load_plan, plan_digest, run_seed, to_jsonable, verif_seed
from sim.minimise import minimise

VERIF = os.path.dirname(os.path.dirname(os.path.abspath(__file__)))
EXIT_OK, EXIT_VIOLATION, EXIT_HARNESS = 0, 1, 3


def log(*a):
    print(*a, file=sys.stderr, flush=True)


def load_check(cid):
    return importlib.import_module(f"checks.{cid.lower()}")


def load_known(cid):
    path = os.path.join(VERIF, "known_findings.json")
    if not os.path.exists(path):
        return []
    with open(path) as f:
        data = json.load(f)
    return [e for e in data.get("findings", []) if e.get("property") == cid]


def sig_matches(sig, entry_sig):
    """Every key listed in the known-finding signature must match exactly
    (a list value means 'one of')."""
    for k, v in entry_sig.items():
        got = sig.get(k)
        if isinstance(v, list):
            if got not in v:
                return False
        elif got != v:
            return False
    return True


# ----------------------------------------------------------------------------
# worker side
# ----------------------------------------------------------------------------

_CHECK = None


def _worker_init(cid):
    global _CHECK
    _CHECK = load_check(cid)
    _CHECK.setup()              # import the library under test; call nothing
    _warm(_CHECK, own=True)


def _warm(chk, own=False):
    if getattr(chk, "USES_PRISTINE", False):
        from sim import pristine
        pristine.warm(own=own)


def isolated(fn, args, cap):
    """Run fn(*args) in a forked child and return ("ok", value) | ("err", text, trace).

    Every simulated run starts from the library's import-time state: nothing a previous run of
    the same worker left behind at module level (caches, memoised factors, registries) can
    reach it, so a violation is a function of the plan alone and replays from the plan file in
    a fresh interpreter.  The pristine-reference server of the parent (if any) is inherited and
    shared, one request at a time."""
    import pickle
    r, w = os.pipe()
    pid = os.fork()
    if pid == 0:
        code = 0
        try:
            os.close(r)
            faulthandler.dump_traceback_later(cap, exit=True)
            try:
                out = ("ok", fn(*args))
            except BaseException as e:  # noqa: BLE001 - reported by the parent
                out = ("err", f"{type(e).__name__}: {e}", traceback.format_exc())
            with os.fdopen(w, "wb") as f:
                pickle.dump(out, f, protocol=pickle.HIGHEST_PROTOCOL)
        except BaseException:  # noqa: BLE001
            code = 1
        finally:
            os._exit(code)
    os.close(w)
    with os.fdopen(r, "rb") as f:
        data = f.read()
    os.waitpid(pid, 0)
    if not data:
        try:
            from sim import pristine
            pristine.reset_after_child_failure()
        except Exception:  # noqa: BLE001
            pass
        return ("err", f"run died or exceeded the per-run cap of {cap}s", "")
    return pickle.loads(data)


def _gen_exec(chk, rs, mode, tier, idx):
    plan = chk.generate(rs, mode, tier, idx)
    res = chk.execute(plan)
    if res.get("violation") is not None:
        res["plan"] = plan
    elif idx < 3:
        res["sample"] = chk.sample_repr(plan)
    return res


def _run_chunk(args):
    cid, vseed, tier, items, per_run_cap = args
    chk = _CHECK or load_check(cid)
    out = []
    for (mode, idx) in items:
        rs = run_seed(vseed, cid, idx, mode)
        t0 = time.perf_counter()
        rep = isolated(_gen_exec, (chk, rs, mode, tier, idx), per_run_cap)
        if rep[0] == "ok":
            res = rep[1]
            res["mode"], res["index"], res["run_seed"] = mode, idx, rs
            res["wall"] = time.perf_counter() - t0
        else:  # harness failure, reported apart from violations
            res = {"mode": mode, "index": idx, "run_seed": rs, "harness_error": rep[1],
                   "trace": rep[2], "wall": time.perf_counter() - t0}
        out.append(res)
    return out


def _exec_isolated(chk, plan):
    rep = isolated(chk.execute, (plan,), chk.PER_RUN_CAP)
    if rep[0] != "ok":
        raise RuntimeError(rep[1] + "\n" + rep[2])
    return rep[1]


def _exec_for_class(chk, plan):
    res = _exec_isolated(chk, plan)
    v = res.get("violation")
    return None if v is None else v["class"]


# ----------------------------------------------------------------------------
# determinism panel
# ----------------------------------------------------------------------------

def panel_items(chk, tier):
    items = []
    for mode, _n in chk.batches(tier):
        for i in range(chk.PANEL_PER_MODE):
            items.append((mode, i))
    return items


def panel_digests(chk, cid, vseed, tier):
    out = []
    for mode, idx in panel_items(chk, tier):
        rs = run_seed(vseed, cid, idx, mode)
        plan = chk.generate(rs, mode, tier, idx)
        res = _exec_isolated(chk, plan)
        out.append(f"{mode}/{idx}:{plan_digest(plan)}:{res['digest']}")
    return out


def determinism_selftest(chk, cid, vseed, tier):
    """same seed twice in-process + once in a fresh interpreter under another
    PYTHONHASHSEED; digests of (plan, event log) must agree."""
    a = panel_digests(chk, cid, vseed, tier)
    b = panel_digests(chk, cid, vseed, tier)
    env = dict(os.environ)
    env["PYTHONHASHSEED"] = "4242" if env.get("PYTHONHASHSEED") != "4242" else "17"
    env["VERIF_SEED"] = str(vseed)
    p = subprocess.run([sys.executable, "-m", "sim.runner", cid, "--tier", tier, "--panel-child"],
                       cwd=VERIF, env=env, capture_output=True, text=True, timeout=600)
    c = [ln[6:] for ln in p.stdout.splitlines() if ln.startswith("PANEL ")]
    ok = (a == b) and (a == c) and p.returncode == 0
    info = {"panel_size": len(a), "in_process_equal": a == b, "fresh_interpreter_equal": a == c,
            "child_hashseed": env["PYTHONHASHSEED"], "child_rc": p.returncode}
    if not ok:
        info["a"], info["b"], info["c"] = a, b, c
        info["child_stderr"] = p.stderr[-2000:]
    return ok, info


# ----------------------------------------------------------------------------
# main
# ----------------------------------------------------------------------------

def replay(chk, cid, path):
    plan = load_plan(path)
    res = chk.execute(plan)
    v = res.get("violation")
    if v is None:
        print(f"replay {path}: no violation (digest {res['digest']})")
        return EXIT_OK
    print(f"replay {path}: {v['class']}: {v['msg']}")
    sig = chk.signature(plan, v)
    entry = next((e for e in load_known(cid) if sig_matches(sig, e["signature"])), None)
    if entry is not None:
        # the same filter as in a batch run: a listed finding is not an alarm
        print(f"KNOWN-FINDING: property={cid} {entry['what']}")
        return EXIT_OK
    print(f"VIOLATION property={cid} replay={path}")
    return EXIT_VIOLATION


def replay_in_fresh_process(cid, path):
    env = dict(os.environ)
    env["PYTHONHASHSEED"] = "99"
    p = subprocess.run([sys.executable, "-m", "sim.runner", cid, "--replay", path],
                       cwd=VERIF, env=env, capture_output=True, text=True, timeout=900)
    return p.returncode == EXIT_VIOLATION, p.stdout


def main(argv=None):
    ap = argparse.ArgumentParser()
    ap.add_argument("check")
    ap.add_argument("--tier", default=os.environ.get("VERIF_TIER", "quick"),
                    choices=["quick", "thorough"])
    ap.add_argument("--replay")
    ap.add_argument("--panel-child", action="store_true")
    ap.add_argument("--runs", type=int, default=None, help="override runs per batch (debug)")
    ap.add_argument("--no-selftest", action="store_true")
    ap.add_argument("--no-evidence", action="store_true")
    ap.add_argument("--workers", type=int, default=int(os.environ.get("VERIF_WORKERS", "0")))
    ap.add_argument("--wall", type=float, default=None, help="wall-clock cap for the batch, s")
    ap.add_argument("--first", action="store_true",
                    help="stop exploring at the first violation that is not a known finding "
                         "(sensitivity tooling only: canaries / seeded changes)")
    ap.add_argument("--no-minimise", action="store_true",
                    help="report the un-minimised plan (sensitivity tooling only)")
    ap.add_argument("--digests", default=None,
                    help="write one 'mode/index plan-independent event-log digest' line per run")
    args = ap.parse_args(argv)

    cid = args.check.upper()
    vseed = verif_seed()
    if not args.panel_child:
        log(f"VERIF_SEED={vseed} check={cid} tier={args.tier}")
    chk = load_check(cid)
    chk.setup()

    if args.replay:
        return replay(chk, cid, args.replay)
    _warm(chk)
    if args.panel_child:
        for ln in panel_digests(chk, cid, vseed, args.tier):
            print("PANEL " + ln)
        return EXIT_OK

    t_start = time.time()
    # -- determinism self-test -------------------------------------------------
    det_info = {"skipped": True}
    if not args.no_selftest:
        try:
            ok, det_info = determinism_selftest(chk, cid, vseed, args.tier)
        except Exception as e:  # noqa: BLE001
            log(f"HARNESS-ERROR determinism self-test crashed: {e!r}")
            traceback.print_exc()
            return EXIT_HARNESS
        if not ok:
            log("HARNESS-ERROR determinism self-test failed: " + json.dumps(det_info)[:3000])
            return EXIT_HARNESS
        log(f"determinism panel ok ({det_info['panel_size']} runs x3, child PYTHONHASHSEED="
            f"{det_info['child_hashseed']})")

    # -- batch -----------------------------------------------------------------
    items = []
    for mode, n in chk.batches(args.tier):
        n = args.runs if args.runs is not None else n
        items += [(mode, i) for i in range(n)]
    workers = args.workers or min(16, os.cpu_count() or 1)
    chunk = max(1, min(8, len(items) // (workers * 4) or 1))
    # interleave modes so a wall-clock cap does not starve one batch
    items.sort(key=lambda mi: (mi[1], mi[0]))
    chunks = [items[i:i + chunk] for i in range(0, len(items), chunk)]
    wall_cap = args.wall or chk.WALL_CAP[args.tier]
    per_run_cap = chk.PER_RUN_CAP
    results, harness_errors = [], []
    timed_out = False
    ctx = mp.get_context("fork")
    ex = cf.ProcessPoolExecutor(max_workers=workers, mp_context=ctx,
                                initializer=_worker_init, initargs=(cid,))
    try:
        futs = [ex.submit(_run_chunk, (cid, vseed, args.tier, ch, per_run_cap)) for ch in chunks]
        deadline = time.time() + wall_cap
        for f in futs:
            remaining = deadline - time.time()
            if remaining <= 0:
                timed_out = True
                break
            try:
                for r in f.result(timeout=remaining):
                    (harness_errors if "harness_error" in r else results).append(r)
                if args.first and any(
                        r.get("violation") is not None and not any(
                            sig_matches(chk.signature(r["plan"], r["violation"]), e["signature"])
                            for e in load_known(cid)) for r in results):
                    log("note: --first: stopping at the first new violation")
                    break
            except cf.TimeoutError:
                timed_out = True
                break
            except Exception as e:  # noqa: BLE001  (BrokenProcessPool: a worker died / hung)
                log(f"HARNESS-ERROR worker failure: {e!r}")
                ex.shutdown(wait=False, cancel_futures=True)
                return EXIT_HARNESS
    finally:
        ex.shutdown(wait=False, cancel_futures=True)
    if timed_out:
        log(f"note: wall cap {wall_cap}s reached after {len(results)} of {len(items)} runs; "
            "reporting on what was explored")
    if harness_errors:
        for h in harness_errors[:3]:
            log("HARNESS-ERROR in run", h["mode"], h["index"], h["harness_error"])
            log(h.get("trace", ""))
        return EXIT_HARNESS
    if not results:
        log("HARNESS-ERROR no run completed")
        return EXIT_HARNESS
    batch_wall = time.time() - t_start
    if args.digests:
        with open(args.digests, "w") as f:
            for r in sorted(results, key=lambda r: (r["mode"], r["index"])):
                f.write(f"{r['mode']}/{r['index']} {r.get('digest')} "
                        f"{(r.get('violation') or {}).get('class')}\n")

    # -- violations ------------------------------------------------------------
    known = load_known(cid)
    vio_runs = [r for r in results if r.get("violation") is not None]
    by_sig = {}
    for r in vio_runs:
        s = chk.signature(r["plan"], r["violation"])
        key = json.dumps(to_jsonable(s), sort_keys=True)
        by_sig.setdefault(key, []).append(r)
    exit_code = EXIT_OK
    n_known = n_new = 0
    known_lines, reported = set(), []
    t_min0 = time.time()
    # smallest plan first for each signature; bound total minimisation effort
    for key, rs_ in sorted(by_sig.items(), key=lambda kv: (-len(kv[1]), kv[0])):
        r = min(rs_, key=lambda r: (chk.plan_size(r["plan"]), r["index"]))
        plan, vio = r["plan"], r["violation"]
        sig = chk.signature(plan, vio)
        entry = next((e for e in known if sig_matches(sig, e["signature"])), None)
        if entry is not None:
            n_known += len(rs_)
            line = f"KNOWN-FINDING: property={cid} {entry['what']}"
            if line not in known_lines:
                known_lines.add(line)
                print(line)
            continue
        n_new += len(rs_)
        if len(reported) >= chk.MAX_REPORTS or time.time() - t_min0 > chk.MINIMISE_TOTAL_S:
            continue
        try:
            if args.no_minimise:
                small, tests = plan, 0
            else:
                small, tests = minimise(plan, chk.candidates, lambda p: _exec_for_class(chk, p),
                                        vio["class"], budget_s=chk.MINIMISE_S)
        except Exception as e:  # noqa: BLE001 - a broken reducer must not hide the violation
            log(f"note: minimiser crashed ({e!r}); reporting the un-minimised plan")
            small, tests = plan, 0
        res2 = _exec_isolated(chk, small)
        vio2 = res2.get("violation") or vio
        # a minimised plan may have slid into a known finding: then it is that finding
        sig2 = chk.signature(small, vio2)
        entry2 = next((e for e in known if sig_matches(sig2, e["signature"])), None)
        if entry2 is not None and entry is None and sig2 != sig:
            small, vio2 = plan, vio  # keep the un-minimised plan: it is the new thing
        small = dict(small)
        small["violation_found"] = vio2
        small["origin"] = {"verif_seed": vseed, "mode": r["mode"], "index": r["index"],
                           "run_seed": r["run_seed"], "minimise_tests": tests,
                           "plan_size_before": chk.plan_size(plan),
                           "plan_size_after": chk.plan_size(small)}
        path = os.path.join(os.environ.get("VERIF_REPLAY_DIR") or os.path.join(VERIF, "replays"),
                            f"{cid}_{vio2['class']}_{plan_digest(small)}.json")
        dump_plan(small, path)
        ok, out = replay_in_fresh_process(cid, path)
        if not ok and small is not plan and chk.plan_size(small) != chk.plan_size(plan):
            # the reduced plan fails only sometimes: keep the original one instead
            log(f"note: minimised plan did not reproduce in a fresh process; trying the original")
            os.remove(path)
            big = dict(plan)
            big["violation_found"] = vio
            big["origin"] = dict(small["origin"], minimise_tests=0,
                                 plan_size_after=chk.plan_size(plan))
            vio2 = vio
            path = os.path.join(os.path.dirname(path),
                                f"{cid}_{vio['class']}_{plan_digest(big)}.json")
            dump_plan(big, path)
            ok, out = replay_in_fresh_process(cid, path)
        if not ok:
            log(f"HARNESS-ERROR violation {vio2['class']} did not reproduce from {path} in a fresh "
                f"process:\n{out[-1500:]}")
            return EXIT_HARNESS
        print(f"violation: {vio2['class']}: {vio2['msg']}  (seed {vseed}, {r['mode']}#{r['index']}, "
              f"plan size {chk.plan_size(plan)} -> {chk.plan_size(small)})")
        print(f"VIOLATION property={cid} replay={path}")
        reported.append({"class": vio2["class"], "msg": vio2["msg"], "replay": path})
        exit_code = EXIT_VIOLATION
    if n_new and not reported:
        log("HARNESS-ERROR violations found but none could be reported")
        return EXIT_HARNESS
    if n_new:
        exit_code = EXIT_VIOLATION

    # -- evidence --------------------------------------------------------------
    if not args.no_evidence:
        wall = time.time() - t_start
        ev = build_evidence(chk, cid, args.tier, vseed, results, wall, batch_wall, det_info,
                            n_new, n_known, reported, sorted(known_lines), timed_out, len(items))
        os.makedirs(os.path.join(VERIF, "evidence"), exist_ok=True)
        with open(os.path.join(VERIF, "evidence", f"{cid}.json"), "w") as f:
            json.dump(to_jsonable(ev), f, indent=1, sort_keys=True)
            f.write("\n")
        if args.tier == "thorough":
            # keep the last thorough run's evidence next to the (quick-tier) file that the
            # every-change command rewrites
            os.makedirs(os.path.join(VERIF, "evidence", "thorough"), exist_ok=True)
            with open(os.path.join(VERIF, "evidence", "thorough", f"{cid}.json"), "w") as f:
                json.dump(to_jsonable(ev), f, indent=1, sort_keys=True)
                f.write("\n")
    log(f"{cid} {args.tier}: {len(results)} runs, {n_new} new violations, {n_known} known-finding "
        f"hits, {time.time() - t_start:.1f}s -> exit {exit_code}")
    return exit_code


def build_evidence(chk, cid, tier, vseed, results, wall, batch_wall, det_info, n_new, n_known,
                   reported, known_lines, timed_out, planned):
    counters = {}
    cov = set()
    steps = 0
    per_mode = {}
    for r in results:
        for k, v in r.get("counters", {}).items():
            counters[k] = counters.get(k, 0) + v
        if r.get("nontrivial"):
            for c in r.get("cov", []):
                cov.add(json.dumps(to_jsonable(c), sort_keys=True))
        steps += r.get("steps", 0)
        per_mode[r["mode"]] = per_mode.get(r["mode"], 0) + 1
    samples = [r["sample"] for r in results if "sample" in r][:3]
    if not samples:
        samples = [{"note": "all sample-index runs ended in a violation; see replays"}]
    digests = sorted(r["digest"] for r in results if "digest" in r)
    coverage = {
        "evaluations": len(results),
        "distinct_nontrivial": len(cov),
        "rule": chk.RULE,
        "samples": samples,
        "runs_planned": planned,
        "runs_per_mode": per_mode,
        "wall_cap_hit": timed_out,
        "logical_steps": steps,
        "simulated_time": f"{steps} logical steps (the code under test has no clock; "
                          "simulated time is the global event sequence number)",
        "runs_per_hour": round(len(results) / max(batch_wall, 1e-9) * 3600),
        "seeds_per_hour": round(len(results) / max(batch_wall, 1e-9) * 3600),
        "distinct_event_log_digests": len(set(digests)),
        "fault_kinds_fired": {k[6:]: v for k, v in sorted(counters.items())
                              if k.startswith("fault:")},
        "reach_probes": {k[6:]: v for k, v in sorted(counters.items()) if k.startswith("reach:")},
        "other_counters": {k: v for k, v in sorted(counters.items())
                           if not k.startswith(("fault:", "reach:", "crash:"))},
        "determinism_selftest": det_info,
        "components": chk.COMPONENTS,
        "known_findings_hit": known_lines,
        "new_violations": reported,
        "known_finding_runs": n_known,
    }
    extra = getattr(chk, "extra_evidence", None)
    if extra:
        coverage.update(extra(results))
    return {
        "property_id": cid,
        "tier": tier,
        "seed": vseed,
        "level": "exploration",
        "coverage": coverage,
        "assumptions": chk.ASSUMPTIONS,
        "wall_s": round(wall, 2),
        "violations": n_new,
    }


if __name__ == "__main__":
    # `python -m sim.runner` loads this file as __main__; keep a single module identity
    sys.modules.setdefault("sim.runner", sys.modules["__main__"])
    sys.exit(main())
