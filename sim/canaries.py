"""Sensitivity self-test: break the property on purpose in a scratch copy of
/repo/dreye, confirm the check raises a VIOLATION within its quick budget, delete
the copy.  Never touches /repo.  Not part of any verdict.

usage: python -m sim.canaries <ID> [--runs N] [--only NAME]
"""
from __future__ import annotations

import argparse
import json
import os
import shutil
import subprocess
import sys
import tempfile
import time

from sim.runner import VERIF, load_check


def run_canary(cid, name, edits, runs, repo="/repo", extra_env=None):
    tmp = tempfile.mkdtemp(prefix=f"dreye_canary_{cid}_")
    try:
        shutil.copytree(os.path.join(repo, "dreye"), os.path.join(tmp, "dreye"),
                        ignore=shutil.ignore_patterns("__pycache__", "*.feather", "*.npy", "*.csv"))
        for rel, old, new in edits:
            path = os.path.join(tmp, "dreye", rel)
            src = open(path).read()
            if src.count(old) != 1:
                return {"name": name, "status": "stale", "detail": f"{rel}: pattern occurs "
                        f"{src.count(old)} times"}
            open(path, "w").write(src.replace(old, new))
        env = dict(os.environ)
        env["DREYE_SRC"] = tmp
        env["VERIF_REPLAY_DIR"] = os.path.join(tmp, "replays")
        env["PYTHONDONTWRITEBYTECODE"] = "1"
        env.update(extra_env or {})
        t0 = time.time()
        cmd = [sys.executable, "-m", "sim.runner", cid, "--no-selftest", "--no-evidence",
               "--first", "--no-minimise"]
        if runs:
            cmd += ["--runs", str(runs)]
        p = subprocess.run(cmd, cwd=VERIF, env=env, capture_output=True, text=True, timeout=1800)
        lines = [ln for ln in p.stdout.splitlines() if ln.startswith(("VIOLATION", "violation:"))]
        killed = p.returncode == 1 and any(ln.startswith("VIOLATION") for ln in lines)
        return {"name": name, "status": "killed" if killed else f"SURVIVED(rc={p.returncode})",
                "wall_s": round(time.time() - t0, 1), "first": lines[:2],
                "stderr_tail": "" if killed else p.stderr[-600:]}
    finally:
        shutil.rmtree(tmp, ignore_errors=True)


def main():
    ap = argparse.ArgumentParser()
    ap.add_argument("check")
    ap.add_argument("--runs", type=int, default=0)
    ap.add_argument("--only")
    a = ap.parse_args()
    cid = a.check.upper()
    chk = load_check(cid)
    out = []
    for name, edits in chk.CANARIES:
        if a.only and a.only != name:
            continue
        r = run_canary(cid, name, edits, a.runs)
        print(json.dumps(r), flush=True)
        out.append(r)
    killed = sum(1 for r in out if r["status"] == "killed")
    print(f"canaries killed {killed}/{len(out)}")
    return 0 if killed == len(out) else 2


if __name__ == "__main__":
    sys.exit(main())
