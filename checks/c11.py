"""C11 - layer decomposition honours every constraint and never worsens its fit.

Simulated system: the alternating X-step / P-step loop of
ReceptorEstimator.fit_decomposition, observed solve by solve at the cvxpy seam
(the loss after every step *is* problem.value of the sub-problem just solved).
The simulator owns the seed (NMF initialisation, subsampling), the ambient RNG
state, the knobs (max_iter, subsample, solver pass-through) and can make the
k-th solve fail.
"""
from __future__ import annotations

import warnings

import numpy as np

from sim.kernel import EventLog, PlanRng, Violation, call, sig
from sim.seams import (LineInterrupter, SimInterrupt, SolveSeam, WarningsAsErrors, ambient_perturb,
                       import_dreye, own_entropy)

ID = "C11"
PANEL_PER_MODE = 2
PER_RUN_CAP = 900
WALL_CAP = {"quick": 400, "thorough": 3300}
MINIMISE_S = 120.0
MINIMISE_TOTAL_S = 300.0
MAX_REPORTS = 3

RULE = ("a run = (system with finite bounds, 1-3 layers, 0/1 mask with >=1 source per layer or "
        "none, equal-L1 on/off, opacity bounds, subsample None/fraction/'fast', seed, max_iter "
        "2-12, 4-30 samples planted or arbitrary, solver SCS default or CLARABEL pass-through); "
        "executed twice with ambient RNG perturbation in between; every solve of the "
        "alternating loop is observed; non-trivial = at least 2 alternating iterations ran; "
        "distinct = distinct (layers, mask class, equal-L1, subsample kind, opacity-bound class, "
        "solver, iterations class, weights?, fault) keys")
ASSUMPTIONS = [
    "descent is asserted up to solver accuracy: v_next <= v_prev + eps (1 + v_prev) + eps_abs "
    "||W*B||_F, eps = 2e-3 / eps_abs = 1e-4 (SCS default), 1e-5 / 1e-5 (CLARABEL)",
    "constraint feasibility up to 2e-3 of the bound range (SCS) / 1e-5 (CLARABEL)",
    "last-factor optimality is judged against an independent cvxpy model solved with CLARABEL",
    "sampled, not exhaustive",
]
COMPONENTS = {
    "real": ["dreye (imported from /repo working tree)", "cvxpy", "SCS", "CLARABEL",
             "sklearn NMF", "numpy PCG64"],
    "wrapped": ["cvxpy.Problem.solve (recorder / SolverError injector)"],
    "simulated": ["seed", "ambient RNG state between the two executions", "max_iter / subsample "
                  "/ solver knobs", "solver failure at the k-th solve of the alternating loop"],
    "absent_in_code_under_test": ["clock", "network", "disk", "threads"],
}

_dreye = None


def setup():
    global _dreye
    if _dreye is None:
        warnings.filterwarnings("ignore")
        _dreye = import_dreye()
    return _dreye


def batches(tier):
    if tier == "quick":
        return [("clean", 420), ("faults", 160), ("werror", 120)]
    return [("clean", 24000), ("faults", 6000), ("werror", 4000)]


# ----------------------------------------------------------------------------
# plan generation
# ----------------------------------------------------------------------------

def generate(rs, mode, tier, index):
    rng = PlanRng(rs)
    n_rec = rng.integers(2, 4)
    n_src = rng.integers(2, 6)
    n_dom = rng.integers(6, 10)
    F = sig(rng.uniform(0.05, 1.0, (n_rec, n_dom)) ** 2)
    S = rng.uniform(0.0, 1.0, (n_src, n_dom)) ** 3
    A = np.trapezoid(F[:, None, :] * S[None, :, :], dx=1.0, axis=-1)
    S = sig(S * rng.uniform(1.0, 3.0) / max(A.mean(), 1e-9))
    A = np.trapezoid(F[:, None, :] * S[None, :, :], dx=1.0, axis=-1)
    Kkind = rng.choice(["one", "vector", "matrix"], p=[0.4, 0.4, 0.2])
    Km = np.diag(rng.uniform(0.6, 1.8, n_rec)) + rng.uniform(0.0, 0.15, (n_rec, n_rec))
    K = {"one": 1.0, "vector": sig(rng.uniform(0.5, 2.0, n_rec)), "matrix": sig(Km)}[Kkind]
    base_kind = rng.choice(["zero", "vector"], p=[0.6, 0.4])
    baseline = 0.0 if base_kind == "zero" else sig(rng.uniform(0.05, 0.5, n_rec))
    if Kkind == "matrix" and base_kind == "zero":
        baseline = np.zeros(n_rec)      # a matrix K needs a per-receptor baseline (see DESIGN 8)
    w = sig(rng.uniform(0.5, 2.0, n_rec)) if rng.coin(0.3) else None
    n_layers = rng.integers(1, 3)
    mask = None
    mask_cls = "none"
    if rng.coin(0.6):
        for _ in range(20):
            M = (rng.random((n_layers, n_src)) < 0.6).astype(float)
            if np.all(M.sum(1) >= 1):
                break
        else:
            M = np.ones((n_layers, n_src))
        mask = M
        mask_cls = "full" if M.all() else ("disjoint" if np.all(M.sum(0) <= 1) else "partial")
    has_zero = mask is not None and not np.all(mask == 1)
    # lower bounds: none, positive on every source (only when no layer forbids a source), or
    # *mixed* - positive on some of the sources every layer may use, zero on the others
    free = np.ones(n_src, bool) if mask is None else np.all(mask == 1, axis=0)
    lb_kind = rng.choice(["none", "all", "mixed"], p=[0.55, 0.2, 0.25])
    lb = None
    if lb_kind == "all" and not has_zero:
        lb = sig(rng.uniform(0.02, 0.2, n_src))
    elif lb_kind == "mixed" and free.any():
        pos = free & (rng.random(n_src) < 0.5)
        if not pos.any():
            pos[int(np.flatnonzero(free)[0])] = True
        if pos.all() and n_src > 1:
            pos[rng.integers(0, n_src - 1)] = False
        lb = sig(np.where(pos, rng.uniform(0.05, 0.3, n_src), 0.0))
    ub = sig(rng.uniform(1.0, 8.0, n_src))
    pb = rng.choice(["default", "narrow", "vector"], p=[0.5, 0.3, 0.2])
    if pb == "default":
        lbp, ubp = 0.0, 1.0
    elif pb == "narrow":
        lbp, ubp = float(sig(rng.uniform(0.02, 0.2))), float(sig(rng.uniform(0.6, 0.95)))
    else:
        lbp = sig(rng.uniform(0.0, 0.15, n_layers))
        ubp = sig(rng.uniform(0.7, 1.0, n_layers))
        if n_layers > 1 and rng.coin(0.5):
            # mixed: some layers may go fully dark (exactly 0), others keep a clear minimum
            lbp = sig(rng.uniform(0.1, 0.3, n_layers))
            lbp[rng.integers(0, n_layers - 1)] = 0.0
    n = rng.integers(max(4, n_layers + 2), 30)
    if n_rec >= n_layers + 2 and rng.coin(0.15):
        n = n_rec        # as many samples as receptors: a shape coincidence helpers may trip on
    big = (mode == "clean" and index % 140 == 7)
    if big:
        n = rng.integers(1100, 1400)   # more samples than subsample='fast' keeps (1028)
    # targets: planted factorisation + noise, or arbitrary positive captures
    Kraw = np.asarray(K, float)

    def applyK(M):
        return (M @ Kraw.T) if Kraw.ndim == 2 else M * Kraw

    bv = np.broadcast_to(np.asarray(baseline, float), (n_rec,))
    if rng.coin(0.7):
        Xp = rng.uniform(0, 1, (n_layers, n_src)) * ub
        if mask is not None:
            Xp = Xp * mask
        Pp = rng.uniform(0.05, 0.95, (n, n_layers))
        B = applyK(Pp @ Xp @ A.T + bv)
        B = B * (1 + 0.05 * rng.g.normal(size=B.shape))
        tk = "planted"
    else:
        B = applyK(rng.uniform(0.2, 1.0, (n, n_rec)) * (A @ ub) * rng.uniform(0.1, 0.8) + bv)
        tk = "arbitrary"
    B = sig(np.maximum(B, applyK(bv[None])[0] * 1.02 + 1e-3))
    sub = rng.choice([None, "fast", "frac"], p=[0.5, 0.2, 0.3])
    if big:
        sub = "fast"
    subsample = None if sub is None else ("fast" if sub == "fast" else
                                          float(sig(rng.uniform(0.5, 0.9), 3)))
    if isinstance(subsample, float) and int(n * subsample) < n_layers + 1:
        subsample = None          # more layers than sub-sampled rows: NMF cannot initialise
    # how the caller states the number of layers: explicitly, through the mask's shape only,
    # or not at all (documented default: n_receptors - 1 layers, every source allowed)
    layers_arg = rng.choice(["explicit", "implicit"], p=[0.75, 0.25])
    if layers_arg == "implicit" and mask is None and n_layers != n_rec - 1:
        layers_arg = "explicit"
    W = sig(rng.uniform(0.5, 2.0, (n, n_rec))) if rng.coin(0.25) else None
    plan = {"check": ID, "run_seed": rs, "mode": mode,
            "sys": {"F": F, "S": S, "K": K, "baseline": baseline, "lb": lb, "ub": ub, "w": w,
                    "n_rec": n_rec, "n_src": n_src, "Kkind": Kkind, "base_kind": base_kind},
            "init_iter": rng.choice([1000, 1000, 3]),
            "B": B, "W": W, "target_kind": tk,
            "n_layers": n_layers, "layers_arg": layers_arg, "mask": mask, "mask_cls": mask_cls,
            "equal_l1": rng.coin(0.55), "lbp": lbp, "ubp": ubp, "pb": pb,
            "subsample": subsample, "seed": rng.integers(0, 2 ** 31),
            "max_iter": rng.integers(2, 12) if not big else rng.integers(2, 3),
            "solver": rng.choice(["SCS", "CLARABEL"], p=[0.6, 0.4]),
            "perturb": rng.integers(1, 10 ** 6),
            "mask_form": rng.choice(["float", "bool", "int", "list", "tuple"], p=[4, 2, 2, 2, 1])}
    if mode == "clean" and not big and rng.coin(0.25):
        # history in one process: an earlier, unrelated decomposition asked for with sloppy
        # solver options must leave nothing behind for the call under test
        plan["prelude"] = {"solver": plan["solver"],
                           "opts": ({"eps": 0.3, "max_iters": 20} if plan["solver"] == "SCS"
                                    else {"max_iter": 3})}
    if mode == "clean" and not big and rng.coin(0.3):
        # stop on the loop's own tolerances while the scheme still makes visible progress
        plan["ftol"] = rng.choice([1e-3, 1e-2, 3e-2])
        plan["xtol"] = rng.choice([1e-8, 1e-8, 1e-3])
        plan["max_iter"] = rng.choice([15, 30])
    if mode == "werror":
        # the only execution runs under -W error with a capped SCS: any inaccurate solve makes
        # cvxpy warn, i.e. raise; the call must raise or return a fully valid result
        plan["solver"] = "SCS"
        plan["scs_max_iters"] = rng.choice([40, 100, 150, 250, 600])
        plan["subsample"] = rng.choice([None, None, plan["subsample"]])
        plan["init_iter"] = 1000
        plan["max_iter"] = rng.choice([6, 15, 40])     # let the loop end on its tolerances
    if mode == "faults":
        plan["fault"] = {"kind": "solver_error", "k": rng.integers(0, 30),
                         "frac": float(sig(rng.random(), 4))}
    return plan


# ----------------------------------------------------------------------------
# execution
# ----------------------------------------------------------------------------

def eps_for(plan):
    return (2e-3, 2e-3) if plan["solver"] == "SCS" else (1e-5, 1e-5)


def run_decomp(plan, est, seed=None):
    kw = {}
    if plan["solver"] != "SCS":
        kw["solver"] = plan["solver"]
    if plan.get("scs_max_iters"):
        kw["max_iters"] = plan["scs_max_iters"]
    if plan.get("init_iter", 1000) != 1000:
        kw["init_iter"] = plan["init_iter"]
    for t in ("ftol", "xtol"):
        if plan.get(t) is not None:
            kw[t] = float(plan[t])
    n_layers_arg = plan["n_layers"] if plan.get("layers_arg", "explicit") == "explicit" else None
    mask = plan["mask"]
    if mask is not None:
        # the same 0/1 mask as a float / bool / int array or as a nested list / tuple
        form = plan.get("mask_form", "float")
        if form == "bool":
            mask = np.asarray(mask) != 0
        elif form == "int":
            mask = np.asarray(mask).astype(np.int64)
        elif form == "list":
            mask = np.asarray(mask).astype(int).tolist()
        elif form == "tuple":
            mask = tuple(tuple(bool(v) for v in row) for row in np.asarray(mask))
    return est.fit_decomposition(
        plan["B"], n_layers=n_layers_arg, mask=mask, lbp=plan["lbp"],
        ubp=plan["ubp"], max_iter=plan["max_iter"], seed=plan["seed"] if seed is None else seed,
        subsample=plan["subsample"], equal_l1norm_constraint=plan["equal_l1"], **kw)


def run_prelude(plan):
    """Another estimator, fewer samples, sloppy solver options; the outcome is ignored."""
    pre = plan["prelude"]
    est = build(dict(plan, W=None))
    kw = dict(pre["opts"])
    if pre["solver"] != "SCS":
        kw["solver"] = pre["solver"]
    import warnings as _w
    with _w.catch_warnings():
        _w.simplefilter("ignore")
        return est.fit_decomposition(plan["B"][: max(4, plan["n_layers"] + 2)],
                                     n_layers=plan["n_layers"], max_iter=2,
                                     seed=plan["seed"] + 7, subsample=None, **kw)


def build(plan):
    s = plan["sys"]
    kw = {} if s.get("w") is None else {"w": s["w"]}
    est = _dreye.ReceptorEstimator(s["F"], domain=1.0, K=s["K"], baseline=s["baseline"], **kw)
    est.register_system(s["S"], lb=s["lb"], ub=s["ub"])
    if plan["W"] is not None:
        est.register_targets(plan["B"], plan["W"])
    return est


def model_terms(plan):
    s = plan["sys"]
    A = np.trapezoid(s["F"][:, None, :] * s["S"][None, :, :], dx=1.0, axis=-1)
    Kraw = np.asarray(s["K"], float)
    bv = np.broadcast_to(np.asarray(s["baseline"], float), (s["n_rec"],))
    if Kraw.ndim == 2:
        return Kraw @ A, Kraw @ bv
    Kv = np.broadcast_to(Kraw, (s["n_rec"],))
    return A * Kv[:, None], Kv * bv


def weights_of(plan):
    """(n_samples x n_receptors) weights as documented: per-sample W if registered, else the
    constructor's per-receptor w, else ones."""
    if plan["W"] is not None:
        return plan["W"]
    w = plan["sys"].get("w")
    if w is not None:
        return np.broadcast_to(np.asarray(w, float)[None], plan["B"].shape)
    return np.ones_like(plan["B"])


def independent_last_factor(plan, X, P, which):
    """Optimal objective of the convex sub-problem for the factor fitted last, solved with an
    independent cvxpy model (CLARABEL)."""
    import cvxpy as cp
    KA, Kb = model_terms(plan)
    s = plan["sys"]
    B = plan["B"] - Kb
    W = weights_of(plan)
    if which == "X":
        V = cp.Variable(X.shape)
        cons = [V >= (0 if s["lb"] is None else np.atleast_2d(s["lb"])), V <= np.atleast_2d(s["ub"])]
        if plan["mask"] is not None and np.any(plan["mask"] == 0):
            cons.append(V[plan["mask"] == 0] == 0)
        if plan["n_layers"] > 1 and plan["equal_l1"]:
            cons.append(cp.diff(cp.sum(V, axis=1)) == 0)
        obj = cp.norm(cp.multiply(W, P @ V @ KA.T - B), "fro")
    else:
        V = cp.Variable(P.shape)
        cons = [V >= np.atleast_2d(plan["lbp"]), V <= np.atleast_2d(plan["ubp"])]
        obj = cp.norm(cp.multiply(W, V @ X @ KA.T - B), "fro")
    prob = cp.Problem(cp.Minimize(obj), cons)
    prob.solve(solver="CLARABEL")
    return float(prob.value)


def execute(plan):
    setup()
    own_entropy(plan["run_seed"])
    log = EventLog()
    counters = {}

    def bump(k, n=1):
        counters[k] = counters.get(k, 0) + n

    s = plan["sys"]
    est = build(plan)
    eps_d, eps_f = eps_for(plan)
    # a loss near zero (exactly fittable targets) is only accurate to the solver's absolute
    # accuracy on the residual, which scales with the data: measured 6.6e-5 (CLARABEL) on
    # targets of norm ~30 where the relative bound alone allowed 1e-5
    eps_abs = 1e-4 if plan["solver"] == "SCS" else 1e-5
    scaleB = float(np.linalg.norm(weights_of(plan) * plan["B"]))
    n, n_layers, n_src = plan["B"].shape[0], plan["n_layers"], s["n_src"]
    violation = None
    steps = 0
    iters_run = 0
    worst_rise = -np.inf
    try:
        if plan.get("prelude"):
            r_pre = call(run_prelude, plan)
            bump("fault:earlier_call_with_other_solver_options")
            log.add("prelude", r_pre.kind)
        if plan["mode"] == "werror":
            with WarningsAsErrors(), SolveSeam() as seam:
                out = call(run_decomp, plan, est)
            if not out.ok:
                # raising is the honest outcome of an inaccurate solve under -W error
                bump("fault:warnings_as_errors")
                bump("werror_outcome:" + out.value)
                log.add("run1", out)
                return {"violation": None, "digest": log.digest(), "steps": seam.count,
                        "counters": counters, "cov": [("werror", "raised", plan["scs_max_iters"])],
                        "nontrivial": True}
            bump("werror_outcome:returned")
        else:
            with SolveSeam() as seam:
                out = call(run_decomp, plan, est)
        steps += seam.count
        log.add("run1", out, [e.as_tuple() for e in seam.events])
        if not out.ok and out.value not in ("SolverError", "RuntimeError"):
            # a valid configuration must be answered: anything but a solver-type failure is the
            # library's own doing
            raise Violation(ID, "decomposition_raised",
                            f"fit_decomposition raised {out.brief()} for a valid configuration "
                            f"(layers stated {plan.get('layers_arg', 'explicit')}ly, mask "
                            f"{plan['mask_cls']})", exc=out.value,
                            layers_arg=plan.get("layers_arg", "explicit"),
                            mask_given=plan["mask"] is not None)
        if not out.ok:
            bump("decomposition_failed:" + out.value)
            # a solver-type failure of a fault-free call is recorded, not judged
            return {"violation": None, "digest": log.digest(), "steps": steps,
                    "counters": counters, "cov": [], "nontrivial": False}
        X, P, Bp = (np.asarray(v) for v in out.value)
        # ---- trajectory ---------------------------------------------------------------------
        # Solves are classified by what they optimise, not by their position, so a refactor
        # that solves more or fewer sub-problems is not flagged: an X-step has one
        # (layers x sources) variable, a P-step one (rows x layers) variable.  Consecutive
        # steps are comparable when they work on the same sample set, i.e. the P-steps with
        # the row count of the first P-step (the sub-sample); a P-step on another row count
        # (full-data refit after sub-sampling) is left out of the chain.
        ev = list(seam.events)

        def kind_of(e):
            """'X', 'P' (loop, parameterised by X), 'Pfull' (no parameter) or None (cannot
            tell - never guessed)."""
            if len(e.var_shapes) != 1 or len(e.var_shapes[0]) != 2:
                return None
            sh = tuple(e.var_shapes[0])
            ps = tuple(e.param_sizes)
            is_x = sh == (n_layers, n_src) and len(ps) == 1 and ps[0] % n_layers == 0 \
                and ps[0] != n_layers * n_src
            is_p = sh[1] == n_layers and ps == (n_layers * n_src,) and sh != (n_layers, n_src)
            if sh == (n_layers, n_src) and ps == (n_layers * n_src,):
                return None                      # rows == layers == sources: undecidable
            if is_x:
                return "X"
            if is_p:
                return "P"
            if sh[1] == n_layers and ps == ():
                return "Pfull"
            return None

        kinds_ = [kind_of(e) for e in ev]
        rows0 = next((e.var_shapes[0][0] for e, k in zip(ev, kinds_) if k == "P"), None)
        chain = [(k[0], e.value) for e, k in zip(ev, kinds_)
                 if e.value is not None and k is not None
                 and (k == "X" or e.var_shapes[0][0] == rows0)]
        if any(k is None for k in kinds_) or len(chain) < 2:
            bump("trajectory_not_classified")
            chain = []
        iters_run = sum(1 for k, _ in chain if k == "P")
        vals = [v for _, v in chain]
        for k in range(1, len(vals)):
            rise = vals[k] - vals[k - 1]
            worst_rise = max(worst_rise, rise / (1 + vals[k - 1]))
            if rise > eps_d * (1 + vals[k - 1]) + eps_abs * scaleB:
                raise Violation(
                    ID, "fit_error_increased",
                    f"alternating step {k} ({chain[k][0]}-step) raised the fitting error "
                    f"from {vals[k - 1]:.6g} to {vals[k]:.6g} (solver {plan['solver']})",
                    step=k, before=vals[k - 1], after=vals[k])
        # ---- post-conditions ------------------------------------------------------------
        lb = np.zeros(n_src) if s["lb"] is None else s["lb"]
        ub = s["ub"]
        rngX = float(np.max(ub - lb))
        if X.shape != (n_layers, n_src) or P.shape != (n, n_layers) or Bp.shape != plan["B"].shape:
            raise Violation(ID, "wrong_shape", f"shapes X{X.shape} P{P.shape} B{Bp.shape}")
        if not (np.all(np.isfinite(X)) and np.all(np.isfinite(P)) and np.all(np.isfinite(Bp))):
            raise Violation(ID, "non_finite", "non-finite entries in the returned factors")
        def feasibility(X, P, eps_f):
            v = max(float(np.max(lb - X)), float(np.max(X - ub)))
            if v > eps_f * rngX:
                raise Violation(ID, "intensity_out_of_bounds",
                                f"layer intensities violate the source bounds by {v:.3g}", amount=v)
            if plan["mask"] is not None and np.any(plan["mask"] == 0):
                v = float(np.max(np.abs(X[plan["mask"] == 0])))
                if v > eps_f * rngX:
                    raise Violation(ID, "mask_violated",
                                    f"a masked source has intensity {v:.3g}", amount=v)
            if n_layers > 1 and plan["equal_l1"]:
                tot = X.sum(1)
                v = float(np.max(tot) - np.min(tot))
                if v > eps_f * rngX * n_src:
                    raise Violation(ID, "unequal_layer_totals",
                                    f"layer totals differ by {v:.3g} although equal totals were "
                                    f"requested", amount=v)
            lbp, ubp = np.atleast_2d(plan["lbp"]), np.atleast_2d(plan["ubp"])
            v = max(float(np.max(lbp - P)), float(np.max(P - ubp)))
            if v > eps_f:
                raise Violation(ID, "opacity_out_of_bounds",
                                f"opacities violate their bounds by {v:.3g}", amount=v)

        try:
            feasibility(X, P, eps_f)
        except Violation as v_feas:
            # SCS at its default accuracy meets constraints only to its own (absolute)
            # tolerance, which grows with the size of the problem (measured: opacities 2.5e-3
            # outside [0, 1] on a 1159-row sub-problem).  A constraint the library forgot or
            # mis-stated is violated with any solver: the violation is attributed only if the
            # same request solved with CLARABEL violates its (tight) feasibility tolerance or
            # if the excess is gross (5 x the SCS tolerance).
            amount = float(v_feas.detail.get("amount", np.inf))
            scale = rngX * (n_src if v_feas.cls == "unequal_layer_totals" else 1.0) \
                if v_feas.cls != "opacity_out_of_bounds" else 1.0
            if plan["solver"] != "SCS" or plan["mode"] == "werror" or amount > 5 * eps_f * scale:
                raise
            out_c = call(run_decomp, dict(plan, solver="CLARABEL", scs_max_iters=None),
                         build(plan))
            if not out_c.ok:
                raise
            Xc, Pc, _ = (np.asarray(v_) for v_ in out_c.value)
            feasibility(Xc, Pc, 1e-5)
            bump("scs_feasibility_excess_not_confirmed_with_clarabel")
        KA, Kb = model_terms(plan)
        v = float(np.max(np.abs(Bp - (P @ X @ KA.T + Kb))))
        if v > 1e-9 * max(1.0, float(np.max(np.abs(Bp)))):
            raise Violation(ID, "prediction_is_not_model_of_factors",
                            f"returned capture differs from K(A (P X)^T + baseline) by {v:.3g}",
                            amount=v)
        # ---- last factor optimal given the other --------------------------------------------
        which = "P" if plan["subsample"] else "X"
        W = weights_of(plan)
        got = float(np.linalg.norm(W * (P @ X @ KA.T - (plan["B"] - Kb)), "fro"))
        r_best = call(independent_last_factor, plan, X, P, which)
        best = r_best.value if r_best.ok else np.inf
        if not r_best.ok:
            bump("independent_refit_failed")
        if np.isfinite(best) and got > best + 3 * (eps_d * (1 + best) + eps_abs * scaleB):
            raise Violation(ID, "last_factor_not_optimal",
                            f"{which} was fitted last but an independent solve of its convex "
                            f"sub-problem reaches {best:.6g} < {got:.6g}", which=which, got=got,
                            best=best)
        # ---- seed determinism under ambient perturbation -------------------------------------
        ambient_perturb(plan["perturb"])
        bump("fault:rng_perturb")
        est2 = build(plan)
        out2 = call(run_decomp, plan, est2)
        log.add("run2", out2)
        if not out2.ok:
            raise Violation(ID, "same_seed_differs", f"second execution with the same seed raised "
                            f"{out2.brief()}")
        X2, P2, _ = (np.asarray(v) for v in out2.value)
        if X2.tobytes() != X.tobytes() or P2.tobytes() != P.tobytes():
            raise Violation(ID, "same_seed_differs",
                            f"same seed, different result: max|dX|={np.max(np.abs(X2 - X)):.3g} "
                            f"max|dP|={np.max(np.abs(P2 - P)):.3g}")
        if plan["subsample"] and plan["subsample"] != "fast" and n >= 8:
            out3 = call(run_decomp, plan, build(plan), plan["seed"] + 1)
            # evidence only: the property asks for equal results from equal seeds, not for
            # different results from different seeds - and two sub-samples can legitimately
            # lead to the same factors (intensities saturating at their bounds: soak, seed 300)
            if out3.ok and np.asarray(out3.value[1]).tobytes() == P.tobytes():
                bump("seed_plus_one_gave_identical_opacities")
            bump("seed_sensitivity_checks")
        # ---- faults: the k-th solve fails / the call is interrupted at the n-th dreye line ------
        if plan.get("fault"):
            est3 = build(plan)
            k = plan["fault"]["k"] % len(ev)
            with SolveSeam(fail_at={k}) as s1:
                out4 = call(run_decomp, plan, est3)
            steps += s1.count
            if s1.fired:
                bump("fault:solver_error")
            log.add("faulted", out4)
            if out4.ok:
                raise Violation(ID, "solver_failure_swallowed",
                                f"solve #{k} of {len(ev)} raised SolverError but the call returned",
                                k=k)
            if out4.value not in ("SolverError", "RuntimeError"):
                raise Violation(ID, "fault_changes_failure_mode",
                                f"injected SolverError surfaced as {out4.brief()}", k=k)
            # interruption (Ctrl-C) somewhere inside the call, on the same estimator
            with LineInterrupter(None) as li0:
                call(run_decomp, plan, build(plan))
            if li0.count:
                n_int = int(plan["fault"].get("frac", 0.5) * li0.count)
                with LineInterrupter(n_int) as li:
                    try:
                        call(run_decomp, plan, est3)
                    except SimInterrupt:
                        bump("fault:line_interrupt")
                log.add("interrupted", li.fired_at)
            # nothing may be left behind: the same request on the same estimator, unfaulted
            out5 = call(run_decomp, plan, est3)
            log.add("after_faults", out5)
            if not out5.ok:
                raise Violation(ID, "failed_call_leaves_state_behind",
                                f"after a failed and an interrupted call the same request raised "
                                f"{out5.brief()}")
            X5, P5, _ = (np.asarray(v) for v in out5.value)
            if X5.tobytes() != X.tobytes() or P5.tobytes() != P.tobytes():
                raise Violation(ID, "failed_call_leaves_state_behind",
                                f"after a failed and an interrupted call the same request (same "
                                f"seed) gives another result: max|dX|={np.max(np.abs(X5 - X)):.3g} "
                                f"max|dP|={np.max(np.abs(P5 - P)):.3g}")
    except Violation as v_:
        violation = v_.as_dict()
    nontrivial = iters_run >= 2
    cov = [(n_layers, plan["mask_cls"], plan["equal_l1"],
            "fast" if plan["subsample"] == "fast" else ("frac" if plan["subsample"] else "none"),
            plan["pb"], plan["solver"], "2" if iters_run == 2 else ("3-5" if iters_run <= 5 else "6+"),
            plan["W"] is not None, bool(plan.get("fault")), plan["target_kind"])]
    bump("alternating_iterations", iters_run)
    if iters_run >= plan["max_iter"]:
        bump("reach:max_iter_reached")
    else:
        bump("reach:converged_early")
    return {"violation": violation, "digest": log.digest(), "steps": steps, "counters": counters,
            "cov": cov, "nontrivial": nontrivial,
            "worst_rise": None if worst_rise == -np.inf else float(worst_rise),
            "solver": plan["solver"]}


# ----------------------------------------------------------------------------
# minimisation / reporting helpers
# ----------------------------------------------------------------------------

def plan_size(plan):
    return plan["B"].shape[0] + plan["max_iter"] + plan["n_layers"] + (3 if plan["mask"] is not None
                                                                        else 0)


def candidates(plan):
    B = plan["B"]
    n = B.shape[0]
    for size in (n // 2, n // 4, 1):
        if size < 1 or n - size < 2:
            continue
        for start in range(0, n, size):
            keep = [i for i in range(n) if not (start <= i < start + size)]
            # stay inside the generator's envelope (NMF needs more rows than layers)
            if len(keep) < plan["n_layers"] + 2:
                continue
            if isinstance(plan["subsample"], float) and \
                    int(len(keep) * plan["subsample"]) < plan["n_layers"] + 1:
                continue
            p = dict(plan)
            p["B"] = B[keep]
            if plan["W"] is not None:
                p["W"] = plan["W"][keep]
            yield p
    if plan.get("layers_arg") == "implicit":
        p = dict(plan)
        p["layers_arg"] = "explicit"
        yield p
    for k, v in (("fault", None), ("W", None), ("subsample", None), ("mask", None),
                 ("equal_l1", False)):
        cur = plan.get(k)
        if cur is not None and cur is not False:
            p = dict(plan)
            p[k] = v
            if k == "mask":
                p["mask_cls"] = "none"
            yield p
    if plan["max_iter"] > 2:
        for m in (2, plan["max_iter"] - 1):
            p = dict(plan)
            p["max_iter"] = m
            yield p
    if plan["pb"] != "default":
        p = dict(plan)
        p["lbp"], p["ubp"], p["pb"] = 0.0, 1.0, "default"
        yield p
    if plan.get("prelude"):
        p = dict(plan)
        p["prelude"] = None
        yield p
    if plan.get("mask_form", "float") != "float":
        p = dict(plan)
        p["mask_form"] = "float"
        yield p
    if plan.get("ftol") is not None or plan.get("xtol") is not None:
        p = dict(plan)
        p["ftol"] = p["xtol"] = None
        yield p


def signature(plan, vio):
    s = {"class": vio["class"], "solver": plan["solver"], "subsample": bool(plan["subsample"])}
    d = vio.get("detail", {})
    for k in ("exc", "layers_arg", "mask_given"):
        if k in d:
            s[k] = d[k]
    return s


def sample_repr(plan):
    return {k: (plan[k].tolist() if isinstance(plan[k], np.ndarray) else plan[k])
            for k in ("run_seed", "mode", "n_layers", "mask", "mask_cls", "equal_l1", "lbp", "ubp",
                      "subsample", "seed", "max_iter", "solver", "target_kind")} | {
        "n_samples": int(plan["B"].shape[0]), "n_rec": plan["sys"]["n_rec"],
        "n_src": plan["sys"]["n_src"], "fault": plan.get("fault")}


def extra_evidence(results):
    worst = {}
    for r in results:
        if r.get("worst_rise") is not None:
            worst[r["solver"]] = max(worst.get(r["solver"], -1e9), r["worst_rise"])
    return {"worst_relative_step_increase_by_solver": {k: float(f"{v:.3g}") for k, v in
                                                       worst.items()},
            "descent_tolerance": {"SCS": 2e-3, "CLARABEL": 1e-5}}


# ----------------------------------------------------------------------------
# sensitivity canaries
# ----------------------------------------------------------------------------

_L = "api/optimize/lsq_linear.py"
CANARIES = [
    ("p_step_uses_stale_X", [(_L,
        "        X = Xpar.value = Xvar.value\n",
        "        X = Xvar.value\n        if n == 0:\n            Xpar.value = X\n")]),
    ("mask_constraint_dropped", [(_L,
        "    if np.any(mask == 0):\n        x_constraints.append(Xvar[mask == 0] == 0)",
        "    if np.any(mask == 0) and n_layers < 2:\n        x_constraints.append(Xvar[mask == 0] == 0)")]),
    ("equal_l1_dropped_for_3_layers", [(_L,
        "    if (n_layers > 1) and equal_l1norm_constraint:",
        "    if (n_layers == 2) and equal_l1norm_constraint:")]),
    ("rng_unseeded", [(_L,
        "        rng = default_rng(seed)\n        idcs = rng.choice(total_size, size=size, replace=False)",
        "        rng = default_rng()\n        idcs = rng.choice(total_size, size=size, replace=False)")]),
    ("nmf_unseeded", [(_L,
        "        random_state=seed,\n",
        "        random_state=None,\n")]),
    ("final_X_refit_omitted", [(_L,
        "    x_problem.solve(solver=solver, verbose=bool(verbose > 1), **opt_kwargs)\n    if not np.isfinite(x_problem.value):\n        raise RuntimeError(\"Optimization did not converge.\")\n\n    X = Xvar.value\n",
        "    x_problem.solve(solver=solver, verbose=bool(verbose > 1), **opt_kwargs)\n    if not np.isfinite(x_problem.value):\n        raise RuntimeError(\"Optimization did not converge.\")\n\n    X = 0.5 * (Xvar.value + X)\n")]),
    ("opacity_upper_bound_ignored_in_full_refit", [(_L,
        "        p_constraints = [\n            Pvar >= lbp,\n            Pvar <= ubp,\n        ]\n        p_objective = cp.Minimize(\n            cp.norm(cp.multiply(Wtotal,",
        "        p_constraints = [\n            Pvar >= lbp,\n        ]\n        p_objective = cp.Minimize(\n            cp.norm(cp.multiply(Wtotal,")]),
    ("prediction_without_baseline_when_subsampled", [(_L,
        "    if return_pred:\n        return X, P, (P @ X @ A.T + baseline)\n    return X, P\n",
        "    if return_pred:\n        return X, P, (P @ X @ A.T + (0 if subsample else baseline))\n    return X, P\n")]),
    ("x_step_ignores_weights_after_first_iteration", [(_L,
        "        P = Ppar.value = Pvar.value\n",
        "        P = Ppar.value = np.clip(Pvar.value * (1.05 if n >= 1 else 1.0), None, None)\n")]),
]
