#!/bin/bash
# Soak: run every check's quick tier under many VERIF_SEED values and report any run that
# does not exit 0 (a false alarm or a harness error on the unchanged tree).
# usage: tools/soak.sh <first_seed> <last_seed> [checks...]
# Replays of anything found are kept under $SOAK_REPLAY_DIR (default /tmp/soak_replays), which
# survives the removal of a `vp run` snapshot.
cd "$(dirname "$0")/.."
first=${1:-1}; last=${2:-20}; shift 2
checks=${@:-C02 C05 C11 C13 C14 C18 C20}
export VERIF_REPLAY_DIR=${SOAK_REPLAY_DIR:-/tmp/soak_replays}
mkdir -p "$VERIF_REPLAY_DIR"
bad=0
for s in $(seq $first $last); do
  for c in $checks; do
    out=$(VERIF_SEED=$s timeout 1500 /venv/bin/python -m sim.runner $c --tier quick --no-evidence --no-selftest 2>&1)
    rc=$?
    line=$(echo "$out" | grep -E "runs, " | tail -1)
    echo "seed=$s $c rc=$rc $line"
    if [ $rc -ne 0 ]; then bad=$((bad+1)); echo "$out" | grep -E "violation:|VIOLATION|HARNESS" | head -5; fi
  done
done
echo "soak finished: $bad non-zero exits"
