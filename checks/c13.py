"""C13 - samples drawn in the gamut are in the gamut, reproducible and uniform.

The simulator owns the randomness: integer seeds, the documented ``seed:
Generator`` seam (a ScriptedGenerator feeding extreme-but-legal draws), the
ambient global RNG state (perturbed between calls) and unrelated RNG-consuming
dreye calls interleaved in a short history.  Oracles are independent of the
code's Delaunay path: facet inequalities of scipy's ConvexHull, an LP
feasibility problem (HiGHS) in intensity space, exact cut volumes
(HalfspaceIntersection) for the uniformity z-test.
"""
from __future__ import annotations

import warnings

import numpy as np

from sim.kernel import EventLog, PlanRng, Violation, call, sig
from sim.seams import (LineInterrupter, ScriptedGenerator, SimInterrupt, WarningsAsErrors,
                       ambient_perturb, import_dreye, own_entropy)

ID = "C13"
USES_PRISTINE = True
PANEL_PER_MODE = 2
PER_RUN_CAP = 600
WALL_CAP = {"quick": 300, "thorough": 3300}
MINIMISE_S = 60.0
MINIMISE_TOTAL_S = 240.0
MAX_REPORTS = 4
Z_ALARM = 7.0

RULE = ("a run = 1-2 clouds / one estimator + a history of 3-12 sampling calls (hull or "
        "estimator; engines None/Halton/Sobol/LHC/instance; n in {1,2,7,100,1e4[,1e5]}; int "
        "seed, Generator or scripted Generator; l1; relative) interleaved with ambient-RNG "
        "perturbation and unrelated seeded dreye calls, with earlier calls repeated later; "
        "mode 'uniform' adds a 2e4-sample default-engine call tested on 48 exact half-space "
        "volumes; non-trivial = at least one repeat across a perturbation or one scripted draw "
        "or one uniformity test; distinct = distinct (dim, cloud class, n class, engine, l1?, "
        "relative?, seed kind, repeat-distance class) keys")
ASSUMPTIONS = [
    "scipy.spatial.ConvexHull facets and HiGHS LP feasibility are correct (independent of "
    "dreye's Delaunay path)",
    f"uniformity alarm only at |z| > {Z_ALARM} on exact region volumes (false-alarm "
    "probability < 3e-12 per tested half-space)",
    "membership tolerance 1e-9 x cloud scale (facets) / 1e-7 relative (LP)",
    "with l1 requested, gamut membership is asserted only when the slice {total = l1} of the "
    "gamut contains every vertex chromaticity (otherwise see known finding)",
]
COMPONENTS = {
    "real": ["dreye (imported from /repo working tree)", "scipy.spatial qhull", "scipy.stats.qmc",
             "numpy PCG64"],
    "wrapped": ["numpy.random.Generator (ScriptedGenerator subclass through the documented "
                "`seed: Generator` argument)"],
    "simulated": ["seed choice", "ambient RNG state", "interleaving of sampling calls with "
                  "other RNG consumers", "extreme draws (vertex / edge / 1e-300 weights, "
                  "least-likely simplex)"],
    "absent_in_code_under_test": ["clock", "network", "disk", "threads"],
}

_dreye = None


def setup():
    global _dreye
    if _dreye is None:
        warnings.filterwarnings("ignore")
        _dreye = import_dreye()
    return _dreye


def batches(tier):
    if tier == "quick":
        return [("clean", 400), ("scripted", 300), ("uniform", 130)]
    return [("clean", 12000), ("scripted", 9000), ("uniform", 4000)]


# ----------------------------------------------------------------------------
# clouds and systems
# ----------------------------------------------------------------------------

CLOUD_CLASSES = ["random", "interior", "near_flat", "skewed", "simplex", "box", "clustered",
                 "flat", "small_units", "prism", "many"]


def make_cloud(rng: PlanRng, dim, cls):
    m = rng.integers(dim + 2, 24)
    if cls == "random":
        Pm = rng.g.normal(size=(m, dim))
    elif cls == "interior":
        Pm = rng.g.normal(size=(m, dim))
        c = Pm.mean(0)
        Pm = np.vstack([Pm, c + 0.05 * rng.g.normal(size=(m, dim)), c[None], c[None]])
    elif cls == "near_flat":
        t = rng.g.uniform(-1, 1, size=(m, 1))
        d = rng.g.normal(size=(1, dim))
        thick = float(rng.choice([1e-2, 1e-3, 1e-4]))
        Pm = t * d + thick * rng.g.normal(size=(m, dim))
    elif cls == "skewed":
        Pm = rng.g.normal(size=(m, dim)) * np.array([1.0, 40.0, 0.03, 7.0])[:dim]
        # shear so the long axis is not axis-aligned
        Sh = np.eye(dim)
        Sh[0, 1] = 0.8
        Pm = Pm @ Sh
    elif cls == "simplex":
        Pm = rng.g.uniform(0, 3, size=(dim + 1, dim))
    elif cls == "box":
        from itertools import product
        Pm = np.array(list(product([0.0, 1.0], repeat=dim))) * rng.g.uniform(0.5, 3.0, dim)
        Pm = np.vstack([Pm, Pm.mean(0)[None]])
    elif cls == "prism":
        # polygon x segment (x square in 4-D): facets are exact parallelograms, so the
        # triangulation of the hull vertices contains simplices of exactly zero volume
        k = rng.choice([5, 6, 8])
        ang = 2 * np.pi * np.arange(k) / k + rng.g.uniform(0, 1)
        poly = np.c_[np.cos(ang), np.sin(ang)] * rng.g.uniform(0.5, 2.0, 2)
        Pm = poly
        for extra in range(dim - 2):
            h = float(rng.g.uniform(0.5, 2.0))
            Pm = np.vstack([np.c_[Pm, np.zeros(len(Pm))], np.c_[Pm, np.full(len(Pm), h)]])
        Pm = sig(Pm)
        if dim > 2:
            # rounding must keep the two caps exact copies of each other
            half = len(Pm) // 2
            Pm[half:, :dim - 1] = Pm[:half, :dim - 1]
        return Pm + sig(rng.g.uniform(-2, 2, dim), 3)
    elif cls == "many" and dim >= 4:
        Pm = rng.g.normal(size=(m, dim))        # (a 4-D triangulation of 3000 points is too slow)
    elif cls == "many":
        # thousands of points, most of them on the boundary of a strongly skewed hull (a dense
        # measurement cloud): anything that thins the cloud out before triangulating shows here
        mm = rng.integers(2100, 3200)
        U = rng.g.normal(size=(mm, dim))
        U /= np.linalg.norm(U, axis=1, keepdims=True)
        U[: mm // 3] *= rng.g.uniform(0.0, 1.0, (mm // 3, 1))          # some interior points
        Pm = U * np.array([40.0, 0.4, 3.0, 1.0])[:dim]
        if dim >= 2:
            th = float(rng.g.uniform(0, np.pi))
            R2 = np.eye(dim)
            R2[:2, :2] = [[np.cos(th), -np.sin(th)], [np.sin(th), np.cos(th)]]
            Pm = Pm @ R2.T
        return sig(Pm + rng.g.uniform(-2, 2, dim))
    elif cls == "small_units":
        # an ordinary cloud expressed in small units (simplex volumes around 1e-9..1e-6, some
        # cells much smaller than others): absolute tolerances in the code show up here
        Pm = rng.g.normal(size=(m, dim)) * float(rng.choice([3e-2, 1e-2, 3e-3, 1e-5, 1e-7]))
        Pm[: m // 3] *= 0.15
        return sig(Pm)
    elif cls == "flat":
        # exactly rank-deficient: all points in a (dim-1)-dimensional affine subspace.  There is
        # no volume to be uniform in, so the call may refuse (QhullError); if it answers, count,
        # membership and reproducibility still apply.
        B2 = rng.g.normal(size=(dim - 1, dim))
        Pm = rng.g.normal(size=(m, dim - 1)) @ B2
        return sig(Pm, 15) + 0.0
    else:  # clustered: many points in one corner, few far away
        Pm = np.vstack([0.01 * rng.g.normal(size=(m, dim)),
                        rng.g.uniform(2, 5, size=(dim + 1, dim))])
    return sig(Pm + rng.g.uniform(-2, 2, dim))


def make_system(rng: PlanRng):
    n_rec = rng.integers(2, 4)
    n_src = rng.integers(n_rec, min(n_rec + 2, 6))
    n_dom = rng.integers(6, 10)
    F = sig(rng.uniform(0.05, 1.0, (n_rec, n_dom)) ** 2)
    S = sig(rng.uniform(0.0, 1.0, (n_src, n_dom)) ** 3)
    K = rng.choice([None, "v", "m"], p=[0.42, 0.42, 0.16])
    Kv = sig(rng.uniform(0.3, 2.0, n_rec)) if K else 1.0
    base = rng.choice([0.0, 0.0, "v"])
    if K == "m":
        # a full (non-symmetric) adaptation matrix; the library needs a per-receptor baseline
        # with it (a scalar one raises on the unchanged tree)
        Kv = sig(np.diag(rng.uniform(0.5, 1.8, n_rec)) + rng.uniform(0.0, 0.25, (n_rec, n_rec)))
        base = "v"
    bv = sig(rng.uniform(0.05, 0.6, n_rec)) if base == "v" else 0.0
    lb = sig(rng.uniform(0.05, 0.3, n_src)) if rng.coin(0.25) else None
    ub = sig(rng.uniform(1.0, 6.0, n_src)) if rng.coin(0.9) else None
    # capture units are arbitrary: a "dim" system has all captures around 1e-9 .. 1e-10
    unit = float(rng.choice([1.0, 1e-9, 1e-10], p=[0.88, 0.06, 0.06]))
    if unit != 1.0:
        S = S * unit
        bv = bv * unit if base == "v" else 0.0
    pinned = None
    if ub is not None and n_src > n_rec and rng.coin(0.2):
        # one source pinned to a positive constant (an always-on background light):
        # lb[j] == ub[j] > 0 is an unusual but legal bounded system
        pinned = rng.integers(0, n_src - 1)
        lb = np.zeros(n_src) if lb is None else np.array(lb, copy=True)
        lb[pinned] = ub[pinned] = float(sig(rng.uniform(0.3, 2.0)))
    return {"F": F, "S": S, "K": Kv, "baseline": bv, "lb": lb, "ub": ub,
            "n_rec": n_rec, "n_src": n_src, "pinned": pinned, "unit": unit}


# ----------------------------------------------------------------------------
# plan generation
# ----------------------------------------------------------------------------

ENGINES = [None, "Halton", "Sobol", "LHC", {"instance": "Halton"}, {"instance": "Sobol"}]


def random_call(rng: PlanRng, plan_ctx, mode, tier):
    targets = plan_ctx["targets"]
    tgt = rng.choice(targets)
    ns = [1, 2, 7, 100, 1000] + ([10000] if rng.coin(0.3) else [])
    if tier == "thorough" and rng.coin(0.03):
        ns.append(100000)
    c = {"t": tgt, "n": int(rng.choice(ns)),
         "engine": rng.choice(ENGINES, p=[4, 1, 1, 1, 0.5, 0.5])}
    if mode == "scripted" and rng.coin(0.6):
        script = {}
        if rng.coin(0.7):
            script["dirichlet"] = rng.choice(["vertex", "edge", "tiny"])
        if rng.coin(0.5) or not script:
            script["choice"] = rng.choice(["first", "last", "min_p"])
        c["seed"] = {"gen": rng.integers(0, 2 ** 31), "script": script}
        c["engine"] = None if rng.coin(0.8) else c["engine"]
    elif rng.coin(0.2):
        c["seed"] = {"gen": rng.integers(0, 2 ** 31), "script": {}}
    else:
        c["seed"] = rng.integers(0, 2 ** 31) if rng.coin(0.8) else rng.integers(0, 3)
    if tgt == "est":
        c["relative"] = rng.coin(0.75)
        if rng.coin(0.35):
            c["l1"] = float(sig(rng.choice([0.3, 1.0, 2.5, 6.0, 15.0]) * rng.uniform(0.8, 1.25)
                                * plan_ctx.get("unit", 1.0)))
            mids = plan_ctx.get("l1_mid")
            if mids and rng.coin(0.45):
                # a total in the middle of the gamut (that of the mid-range intensities): the
                # slice at such a total usually contains every chromaticity of the gamut, so
                # that membership is asserted
                c["l1"] = float(sig(mids[bool(c["relative"])] * rng.uniform(0.85, 1.15)))
    return c


def generate(rs, mode, tier, index):
    rng = PlanRng(rs)
    dim = rng.integers(2, 4)
    clouds = {}
    for j in range(rng.integers(1, 3)):
        cls = rng.choice(CLOUD_CLASSES, p=[3, 2, 2, 2, 1, 1, 1, 1, 2, 1.5, 0.4])
        if mode == "uniform" and j == 0:
            # the uniformity batch walks through the classes so that every invocation tests each
            vol = [c for c in CLOUD_CLASSES if c != "flat"]
            cls = vol[index % len(vol)]
        clouds[f"P{j}"] = {"cls": cls, "P": make_cloud(rng, dim, cls)}
    sysd = make_system(rng) if rng.coin(0.6) or mode == "uniform" and rng.coin(0.5) else None
    targets = list(clouds) + (["est"] if sysd else [])
    ctx = {"targets": targets, "unit": 1.0 if sysd is None else sysd.get("unit", 1.0)}
    if sysd is not None and sysd["ub"] is not None:
        A_ = np.trapezoid(sysd["F"][:, None, :] * sysd["S"][None, :, :], dx=1.0, axis=-1)
        lb_ = np.zeros(sysd["n_src"]) if sysd["lb"] is None else np.asarray(sysd["lb"], float)
        q_ = A_ @ (0.5 * (lb_ + np.asarray(sysd["ub"], float)))
        ctx["l1_mid"] = {False: float(q_.sum()),
                         True: float((np.asarray(sysd["K"], float) @ (
                             q_ + np.asarray(sysd["baseline"], float))).sum()
                             if np.ndim(sysd["K"]) == 2 else
                             ((q_ + np.asarray(sysd["baseline"], float))
                              * np.asarray(sysd["K"], float)).sum())}
    ops = []
    n_calls = rng.integers(3, 12)
    perturb_p = 0.5 if mode != "clean" else 0.25

    def uniform_call():
        tgt = rng.choice(targets, p=[3.0] + [1.0] * (len(targets) - 1))
        c = {"t": tgt, "n": 20000, "engine": None, "seed": rng.integers(0, 2 ** 31),
             "uniform": True}
        if tgt == "est":
            c["relative"] = rng.coin(0.7)
        return {"call": c}

    uniform_first = rng.coin(0.5)
    # 1) the requests (repeat_of refers to request ids), 2) requests with l1 moved to the end
    # of the history (both known findings concern the l1 variant and end a run), 3) ops
    reqs = []
    for _ in range(n_calls):
        if reqs and rng.coin(0.35):
            src = rng.integers(0, len(reqs) - 1)
            c = {k: v for k, v in reqs[src].items() if k != "repeat_of"}
            c["repeat_of"] = src
        else:
            c = random_call(rng, ctx, mode, tier)
            if c.get("l1") is not None and sysd is not None and sysd["n_rec"] == 2 \
                    and not rng.coin(0.1):
                c.pop("l1")
        reqs.append(c)
    order = [i for i, c in enumerate(reqs) if c.get("l1") is None] + \
            [i for i, c in enumerate(reqs) if c.get("l1") is not None]
    if mode == "uniform" and uniform_first:
        ops.append(uniform_call())
    op_of = {}
    pending_uniform = (mode == "uniform" and not uniform_first)
    for i in order:
        c = dict(reqs[i])
        if pending_uniform and c.get("l1") is not None:
            ops.append(uniform_call())      # after the plain requests, before the l1 ones
            pending_uniform = False
        if "repeat_of" in c:
            c["repeat_of"] = op_of[c["repeat_of"]]
        op_of[i] = len(ops)
        ops.append({"call": c})
        if rng.coin(perturb_p):
            ops.append({"px": rng.integers(1, 10 ** 6)})
        if rng.coin(0.25):
            ops.append({"noise": rng.choice(["mean_width", "sample_other", "np_global"]),
                        "seed": rng.integers(0, 5)})
        if mode != "clean" and rng.coin(0.2):
            # a sampling call that is aborted part-way (Ctrl-C) or run under -W error: whatever
            # it leaves behind must not show in later calls
            ca = random_call(rng, ctx, mode, tier)
            ca.pop("l1", None)
            ca["n"] = min(ca["n"], 100)
            ops.append({"abort": ca, "how": rng.choice(["interrupt", "warnings"], p=[0.75, 0.25]),
                        "frac": float(sig(rng.random(), 4)),
                        "count": rng.choice([1, 8, 40], p=[1, 2, 2])})
        if sysd is not None and rng.coin(0.2):
            # the system's registered values change between sampling calls: later samples
            # must lie in the *current* gamut
            kind = rng.choice(["K", "baseline", "ub", "sysadapt"])
            if kind == "K":
                val = sig(rng.uniform(0.3, 2.0, sysd["n_rec"]))
            elif kind == "baseline":
                val = sig(rng.uniform(0.05, 0.6, sysd["n_rec"])) * sysd.get("unit", 1.0)
            elif kind == "ub":
                val = sig(rng.uniform(1.0, 6.0, sysd["n_src"]))
                if sysd.get("pinned") is not None:
                    val[sysd["pinned"]] = sysd["lb"][sysd["pinned"]]     # stays pinned
            else:
                val = sig(rng.uniform(0.3, 1.0, sysd["n_src"]))
            ops.append({"mut": kind, "value": val})
    if pending_uniform:
        ops.append(uniform_call())
    last_mut = -1
    for i, op in enumerate(ops):
        if "mut" in op:
            last_mut = i
        elif "call" in op and op["call"].get("t") == "est" and \
                op["call"].get("repeat_of", 10 ** 9) < last_mut:
            op["call"].pop("repeat_of")     # the system changed in between
    return {"check": ID, "run_seed": rs, "mode": mode, "dim": dim, "clouds": clouds,
            "sys": sysd, "ops": ops, "cut_seed": rng.integers(0, 2 ** 31),
            "pristine": rng.coin(0.3)}


# ----------------------------------------------------------------------------
# oracles
# ----------------------------------------------------------------------------

def gamut_vertices(sysd, relative):
    """Independent of dreye: image of the corners of the intensity box."""
    from itertools import product
    F, S = sysd["F"], sysd["S"]
    A = np.trapezoid(F[:, None, :] * S[None, :, :], dx=1.0, axis=-1)
    n_src = A.shape[1]
    lb = np.zeros(n_src) if sysd["lb"] is None else np.asarray(sysd["lb"], float)
    bounded = sysd["ub"] is not None
    ub = np.asarray(sysd["ub"], float) if bounded else lb + 1.0
    X = np.array(list(product([0.0, 1.0], repeat=n_src))) * (ub - lb) + lb
    Q = X @ A.T
    if relative:
        Kr = np.asarray(sysd["K"], float)
        Q = Q + np.asarray(sysd["baseline"], float)
        Q = Q @ Kr.T if Kr.ndim == 2 else Q * Kr
    return Q, A, lb, (ub if bounded else None)


LP_INCONCLUSIVE = [0]


def _linprog(c, **kw):
    """HiGHS now and then ends with 'model status unknown' (status 4) on a perfectly feasible
    little LP (soak, VERIF_SEED=526): try the other HiGHS algorithms before giving up; a
    membership question the oracle itself cannot answer is inconclusive, never a violation."""
    from scipy.optimize import linprog
    for method in ("highs", "highs-ipm", "highs-ds"):
        r = linprog(c, method=method, **kw)
        if r.status in (0, 2, 3):          # solved / infeasible / unbounded: an answer
            return r
    LP_INCONCLUSIVE[0] += 1
    return None


def lp_in_gamut(s, sysd, relative, A, lb, ub):
    """exists lb <= x <= ub with K(Ax + baseline) = s ?  (HiGHS, feasibility only)"""
    from scipy.optimize import linprog
    K = np.asarray(sysd["K"], float) if relative else np.asarray(1.0)
    base = np.asarray(sysd["baseline"], float) if relative else 0.0
    if K.ndim == 2:
        Aeq = K @ A
        beq = s - K @ np.broadcast_to(base, (A.shape[0],))
    else:
        Aeq = A * (np.broadcast_to(K, (A.shape[0],))[:, None])
        beq = s - np.broadcast_to(K * base, (A.shape[0],))
    # work in the system's own capture unit (a dim system has captures around 1e-9): the unit
    # of the *relative* capture is that of K times the unit of the absolute one
    unit = max(float(np.max(np.abs(Aeq))), 1e-300)
    unit = unit if unit < 1e-3 else 1.0
    Aeq, beq = Aeq / unit, beq / unit
    scale = max(1.0, float(np.max(np.abs(s))) / unit)
    tol = 1e-7 * scale
    # feasibility with slack: minimise t s.t. |Aeq x - beq| <= t
    n = A.shape[1]
    c = np.r_[np.zeros(n), 1.0]
    Aub = np.block([[Aeq, -np.ones((A.shape[0], 1))], [-Aeq, -np.ones((A.shape[0], 1))]])
    bub = np.r_[beq, -beq]
    bounds = [(lb[i], None if ub is None else ub[i]) for i in range(n)] + [(0, None)]
    r = _linprog(c, A_ub=Aub, b_ub=bub, bounds=bounds)
    if r is None:
        return True, float("nan")
    return bool(r.status == 0 and r.fun <= tol), (float(r.fun) if r.status == 0 else np.inf)


def lp_in_hull(s, Pm):
    from scipy.optimize import linprog
    m = Pm.shape[0]
    scale = max(1.0, float(np.max(np.abs(Pm))))
    c = np.r_[np.zeros(m), 1.0]
    Aeq = np.r_[np.c_[np.ones((1, m)), 0.0]]
    d = Pm.shape[1]
    Aub = np.block([[Pm.T, -np.ones((d, 1))], [-Pm.T, -np.ones((d, 1))]])
    bub = np.r_[s, -s]
    r = _linprog(c, A_ub=Aub, b_ub=bub, A_eq=Aeq, b_eq=[1.0],
                 bounds=[(0, None)] * m + [(0, None)])
    if r is None:
        return True, float("nan")
    return bool(r.status == 0 and r.fun <= 1e-7 * scale), (float(r.fun) if r.status == 0
                                                           else np.inf)


def facet_violation(Sm, Pm):
    """max signed distance outside the hull of Pm over all samples (<=0 means inside).
    Returns (-inf, None) when the harness's own qhull call cannot build the hull (degenerate
    cloud): the LP oracle then carries membership alone and uniformity is skipped."""
    from scipy.spatial import ConvexHull
    try:
        h = ConvexHull(Pm)
    except Exception:  # noqa: BLE001 - QhullError in the *oracle*, not in the code under test
        return -np.inf, None
    d = Sm @ h.equations[:, :-1].T + h.equations[:, -1]
    return float(d.max()), h


def l1_safe(sysd, relative, l1, A, lb, ub):
    """True iff l1 * c lies in the gamut for every vertex chromaticity c, i.e. the slice
    {total = l1} of the gamut contains every chromaticity the l1-variant may return."""
    Q, _, _, _ = gamut_vertices(sysd, relative)
    tot = Q.sum(1)
    Q = Q[tot != 0]
    for q in Q:
        ok, _ = lp_in_gamut(q / q.sum() * l1, sysd, relative, A, lb, ub)
        if not ok:
            return False
    return True


def exact_cut_fraction(h, normal, offset):
    """vol(hull ∩ {normal.x + offset <= 0}) / vol(hull) via HalfspaceIntersection."""
    from scipy.optimize import linprog
    from scipy.spatial import ConvexHull, HalfspaceIntersection
    hs = np.vstack([h.equations, np.r_[normal, offset][None]])
    # Chebyshev centre of the intersection as the strictly interior point
    nrm = np.linalg.norm(hs[:, :-1], axis=1)
    c = np.r_[np.zeros(hs.shape[1] - 1), -1.0]
    r = linprog(c, A_ub=np.c_[hs[:, :-1], nrm], b_ub=-hs[:, -1],
                bounds=[(None, None)] * (hs.shape[1] - 1) + [(0, None)], method="highs")
    if r.status != 0 or r.x[-1] <= 1e-9 * max(1.0, float(np.max(np.abs(h.points)))):
        return None
    hi = HalfspaceIntersection(hs, r.x[:-1])
    return ConvexHull(hi.intersections).volume / h.volume


# ----------------------------------------------------------------------------
# execution
# ----------------------------------------------------------------------------

def make_seed(spec):
    if isinstance(spec, dict):
        return ScriptedGenerator(spec["gen"], spec.get("script"))
    return int(spec)


def make_engine(spec, dim_plus_1):
    from scipy.stats import qmc
    if isinstance(spec, dict):
        cls = {"Halton": qmc.Halton, "Sobol": qmc.Sobol}[spec["instance"]]
        return cls(dim_plus_1, seed=12345)
    return spec


def pristine_sample(cloud, sysd, c, dim):
    """Runs in a forked child of a process that imported dreye and never called it: the same
    sampling request, on an estimator built directly in the current registered state."""
    setup()
    import warnings as _w
    _w.filterwarnings("ignore")
    seed = make_seed(c["seed"])
    if c["t"] == "est":
        est = _dreye.ReceptorEstimator(sysd["F"], domain=1.0, K=sysd["K"],
                                       baseline=sysd["baseline"])
        est.register_system(sysd["S"], lb=sysd["lb"], ub=sysd["ub"])
        d_out = sysd["n_rec"]
        eng = make_engine(c["engine"], (d_out if c.get("l1") is None else d_out - 1) + 1)
        return np.asarray(est.sample_in_gamut(n=c["n"], seed=seed, engine=eng, l1=c.get("l1"),
                                              relative=c.get("relative", True)))
    return np.asarray(_dreye.sample_in_hull(cloud, c["n"], seed=seed,
                                            engine=make_engine(c["engine"], dim + 1)))


def n_class(n):
    return "1" if n == 1 else ("small" if n <= 7 else ("mid" if n <= 1000 else "large"))


def seed_kind(spec):
    if isinstance(spec, dict):
        return "scripted" if spec.get("script") else "generator"
    return "int"


def execute(plan):
    setup()
    own_entropy(plan["run_seed"])
    log = EventLog()
    counters = {}
    cov = []

    def bump(k, n=1):
        counters[k] = counters.get(k, 0) + n

    dim = plan["dim"]
    clouds = {k: np.array(v["P"], copy=True) for k, v in plan["clouds"].items()}
    ref_clouds = {k: np.array(v["P"], copy=True) for k, v in plan["clouds"].items()}
    sysd = None if plan["sys"] is None else dict(plan["sys"])
    est = None
    if sysd is not None:
        est = _dreye.ReceptorEstimator(sysd["F"], domain=1.0, K=sysd["K"],
                                       baseline=sysd["baseline"])
        est.register_system(sysd["S"], lb=sysd["lb"], ub=sysd["ub"])
    zmax = [0.0]
    LP_INCONCLUSIVE[0] = 0
    pristine_left = [3]
    results = {}       # op index -> (canonical bytes, array)
    violation = None
    steps = 0
    nontrivial = False
    perturbed_since = {}
    try:
        for oi, op in enumerate(plan["ops"]):
            steps += 1
            if "px" in op:
                ambient_perturb(op["px"])
                bump("fault:rng_perturb")
                for k in perturbed_since:
                    perturbed_since[k] = True
                log.add(oi, "px", op["px"])
                continue
            if "mut" in op:
                v = np.array(op["value"], copy=True)
                if op["mut"] == "K":
                    est.register_adaptation(v)
                    sysd["K"] = op["value"]
                elif op["mut"] == "baseline":
                    est.register_baseline(v)
                    sysd["baseline"] = op["value"]
                elif op["mut"] == "ub":
                    est.register_bounds(ub=v)
                    sysd["ub"] = op["value"]
                else:
                    est.register_system_adaptation(v)
                    Q0, A0, _, _ = gamut_vertices(dict(sysd, K=1.0, baseline=0.0), False)
                    sysd["K"] = 1.0 / (A0 @ np.asarray(op["value"], float)
                                       + np.asarray(sysd["baseline"], float))
                bump("fault:registered_values_changed_between_calls")
                for k in perturbed_since:
                    perturbed_since[k] = True
                log.add(oi, "mut", op["mut"])
                continue
            if "abort" in op:
                ca = op["abort"]

                def do_call():
                    sd = make_seed(ca["seed"])
                    if ca["t"] == "est":
                        return est.sample_in_gamut(n=ca["n"], seed=sd,
                                                   engine=make_engine(ca["engine"],
                                                                      sysd["n_rec"] + 1),
                                                   relative=ca.get("relative", True))
                    return _dreye.sample_in_hull(clouds[ca["t"]], ca["n"], seed=sd,
                                                 engine=make_engine(ca["engine"], dim + 1))

                if op["how"] == "interrupt":
                    with LineInterrupter(None) as li0:
                        call(do_call)
                    cnt = int(op.get("count", 1))
                    for j in range(cnt if li0.count else 0):
                        # a sweep of crash points spread over the call
                        n_int = int(((op["frac"] + j / cnt) % 1.0) * li0.count)
                        with LineInterrupter(n_int) as li:
                            try:
                                call(do_call)
                            except SimInterrupt:
                                bump("fault:line_interrupt")
                        log.add(oi, "abort", li.fired_at)
                else:
                    with WarningsAsErrors():
                        r_w = call(do_call)
                    if not r_w.ok:
                        bump("fault:warnings_as_errors")
                    log.add(oi, "abort-W", r_w.kind)
                for k in perturbed_since:
                    perturbed_since[k] = True
                for name in clouds:
                    if not np.array_equal(clouds[name], ref_clouds[name]):
                        raise Violation(ID, "caller_cloud_modified",
                                        f"an aborted sampling call modified the point cloud "
                                        f"{name} in place", call=ca, op=oi)
                continue
            if "noise" in op:
                # unrelated consumers of randomness between two sampling calls
                if op["noise"] == "mean_width":
                    _dreye.api.metrics.compute_mean_width(next(iter(clouds.values())),
                                                          n=50, seed=op["seed"])
                elif op["noise"] == "sample_other":
                    call(_dreye.sample_in_hull, next(iter(clouds.values())), 5, seed=op["seed"])
                else:
                    np.random.standard_normal(7)
                bump("fault:interleaved_rng_consumer")
                for k in perturbed_since:
                    perturbed_since[k] = True
                log.add(oi, "noise", op["noise"])
                continue
            c = op["call"]
            n = c["n"]
            seed = make_seed(c["seed"])
            if c["t"] == "est":
                rel = c.get("relative", True)
                d_out = sysd["n_rec"]
                eng = make_engine(c["engine"], (d_out if c.get("l1") is None else d_out - 1) + 1)
                out = call(est.sample_in_gamut, n=n, seed=seed, engine=eng, l1=c.get("l1"),
                           relative=rel)
            else:
                Pm = ref_clouds[c["t"]]        # oracles use the caller's original cloud
                d_out = dim
                eng = make_engine(c["engine"], dim + 1)
                # the *same* array object is handed to every call on this cloud (the documented
                # argument type is an ndarray: nested lists are rejected by the unchanged code)
                out = call(_dreye.sample_in_hull, clouds[c["t"]], n, seed=seed, engine=eng)
            log.add(oi, "call", out)
            sk = seed_kind(c["seed"])
            if sk == "scripted":
                bump("fault:scripted_draw")
                nontrivial = True
            if not out.ok and c["t"] != "est" and plan["clouds"][c["t"]]["cls"] == "flat" \
                    and out.value == "QhullError":
                bump("flat_cloud_refused")
                results[oi] = ("refused",)
                perturbed_since[oi] = False
                continue
            if not out.ok:
                raise Violation(ID, "sampling_raised",
                                f"sampling call {c} raised {out.brief()}", call=c, op=oi,
                                exc=out.value)
            Sm = np.asarray(out.value)
            if c["t"] != "est" and not np.array_equal(clouds[c["t"]], ref_clouds[c["t"]]):
                raise Violation(ID, "caller_cloud_modified",
                                f"the point cloud passed to {c} was modified in place (later "
                                f"calls on it sample another hull)", call=c, op=oi)
            # ---- count / finiteness ----
            if Sm.shape != (n, d_out):
                raise Violation(ID, "wrong_count", f"asked for {n} samples in {d_out} dims, got "
                                f"shape {Sm.shape} for {c}", call=c, op=oi)
            if not np.all(np.isfinite(Sm)):
                raise Violation(ID, "non_finite_sample", f"non-finite sample for {c}", call=c,
                                op=oi)
            if plan.get("pristine") and n <= 1000 and pristine_left[0] > 0 \
                    and seed_kind(c["seed"]) != "scripted":
                # the same request where nothing was ever requested before (module-level
                # state left behind by earlier calls of this run cannot reach it)
                from sim import pristine
                pristine_left[0] -= 1
                # the estimator of the reference is built from the *very same* registered values
                # (bit for bit: a gamut's vertex cloud is highly degenerate, and a 1-ulp change
                # of K re-triangulates it, which moves every sample)
                sys_now = sysd if est is None else dict(
                    sysd, K=np.array(est.K, copy=True), baseline=np.array(est.baseline, copy=True),
                    lb=np.array(est.lb, copy=True), ub=np.array(est.ub, copy=True))
                ref = pristine.client().call("checks.c13", "pristine_sample",
                                             None if c["t"] == "est" else ref_clouds[c["t"]],
                                             sys_now, {k_: v_ for k_, v_ in c.items()}, dim)
                bump("pristine_process_references")
                if ref.shape != Sm.shape or not np.allclose(ref, Sm, rtol=1e-10, atol=1e-12 * (
                        1.0 + float(np.max(np.abs(Sm))))):
                    raise Violation(ID, "differs_from_pristine_process",
                                    f"{c} returned other samples than the same request in a "
                                    f"process where dreye was never called before (max |diff| "
                                    f"{float(np.max(np.abs(ref - Sm))) if ref.shape == Sm.shape else 'shape'})",
                                    call=c, op=oi)
            # ---- membership ----
            if c["t"] == "est":
                Q, A, lb, ub = gamut_vertices(sysd, rel)
                l1 = c.get("l1")
                if l1 is not None:
                    tot = Sm.sum(1)
                    if np.max(np.abs(tot - l1)) > 1e-9 * max(sysd.get("unit", 1.0), abs(l1)):
                        raise Violation(ID, "l1_not_met", f"requested total {l1}, got totals up "
                                        f"to {np.max(np.abs(tot - l1)):.3g} away for {c}",
                                        call=c, op=oi)
                safe = True if l1 is None else l1_safe(sysd, rel, l1, A, lb, ub)
                if l1 is not None:
                    bump("reach:l1_safe" if safe else "reach:l1_unsafe")
                idx = np.linspace(0, n - 1, min(n, 40)).astype(int)
                for i in idx:
                    ok, res = lp_in_gamut(Sm[i], sysd, rel, A, lb, ub)
                    if not ok:
                        raise Violation(
                            ID, "sample_outside_gamut",
                            f"sample {i} of {c} is not reproducible by in-bound intensities "
                            f"(LP residual {res:.3g})", call=c, op=oi, l1_requested=l1 is not None,
                            l1_covers_all_chromaticities=bool(safe))
                if ub is not None and l1 is None:
                    worst, h = facet_violation(Sm, Q)
                    if worst > 1e-9 * max(min(1.0, float(np.max(np.abs(Q)))),
                                          float(np.max(np.abs(Q)))):
                        raise Violation(ID, "sample_outside_gamut",
                                        f"a sample of {c} lies {worst:.3g} outside the gamut's "
                                        f"facets", call=c, op=oi, l1_requested=False,
                                        l1_covers_all_chromaticities=True)
            else:
                # the oracles work in the cloud's own unit (centred, extent 1): clouds come at
                # scales from 1e-7 to 40 and neither qhull's nor HiGHS's tolerances are relative
                ctr_ = Pm.mean(0)
                ext_ = float(np.max(np.abs(Pm - ctr_))) or 1.0
                Pn_, Sn_ = (Pm - ctr_) / ext_, (Sm - ctr_) / ext_
                worst, h = facet_violation(Sn_, Pn_)
                if worst > 1e-9:
                    raise Violation(ID, "sample_outside_hull",
                                    f"a sample of {c} lies {worst:.3g} (in units of the cloud's "
                                    f"extent) outside the hull's facets", call=c, op=oi)
                idx = np.linspace(0, n - 1, min(n, 12)).astype(int)
                for i in idx:
                    ok, res = lp_in_hull(Sn_[i], Pn_)
                    if not ok:
                        raise Violation(ID, "sample_outside_hull",
                                        f"sample {i} of {c} is not a convex combination of the "
                                        f"cloud (LP residual {res:.3g})", call=c, op=oi)
            # ---- reproducibility ----
            key = Sm.tobytes()
            if "repeat_of" in c and c["repeat_of"] in results:
                prev = results[c["repeat_of"]]
                far = perturbed_since.get(c["repeat_of"], False)
                if far:
                    nontrivial = True
                    bump("reach:repeat_across_perturbation")
                else:
                    bump("reach:repeat_adjacent")
                if prev != key:
                    raise Violation(ID, "same_seed_differs",
                                    f"identical request {c} gave different samples at op "
                                    f"{c['repeat_of']} and op {oi}", call=c, op=oi)
            results[oi] = key
            perturbed_since[oi] = False
            # seed sensitivity: same request with seed+1 must differ (cheap: only small n)
            if sk == "int" and n >= 2 and n <= 100 and c["engine"] is None:
                alt = dict(c)
                if c["t"] == "est":
                    o2 = call(est.sample_in_gamut, n=n, seed=int(c["seed"]) + 1, engine=None,
                              l1=c.get("l1"), relative=c.get("relative", True))
                else:
                    o2 = call(_dreye.sample_in_hull, clouds[c["t"]], n, seed=int(c["seed"]) + 1)
                if o2.ok and np.asarray(o2.value).tobytes() == key:
                    raise Violation(ID, "seed_ignored", f"seeds {c['seed']} and "
                                    f"{int(c['seed']) + 1} give identical samples for {alt}",
                                    call=c, op=oi)
                bump("seed_sensitivity_checks")
            # ---- uniformity (default engine only) ----
            if c.get("uniform"):
                nontrivial = True
                Pts = Q if c["t"] == "est" else Pm
                ctr_ = Pts.mean(0)
                ext_ = float(np.max(np.abs(Pts - ctr_))) or 1.0
                Pts = (Pts - ctr_) / ext_
                Sm = (Sm - ctr_) / ext_          # (Sm is not used below this block)
                if c["t"] == "est" and ub is None:
                    bump("uniformity_skipped_unbounded")
                else:
                    _, h = facet_violation(Sm, Pts)
                    if h is None:
                        bump("uniformity_skipped_oracle_hull_failed")
                        cov.append((d_out, "oracle_hull_failed"))
                        results[oi] = key
                        continue
                    g = np.random.Generator(np.random.PCG64(plan["cut_seed"]))
                    worst_z, tested = 0.0, 0
                    Vh = h.points[h.vertices]
                    for _ in range(48):
                        nv = g.normal(size=Pts.shape[1])
                        nv /= np.linalg.norm(nv)
                        # plane through a random convex combination of hull vertices
                        w = g.dirichlet(np.ones(len(Vh)))
                        x0 = w @ Vh
                        off = -float(nv @ x0)
                        try:
                            f = exact_cut_fraction(h, nv, off)
                        except Exception:  # noqa: BLE001 - qhull trouble inside the oracle
                            f = None
                        if f is None or not (0.02 < f < 0.98):
                            continue
                        fh = float(np.mean(Sm @ nv + off <= 0))
                        z = (fh - f) / np.sqrt(f * (1 - f) / n)
                        tested += 1
                        if abs(z) > abs(worst_z):
                            worst_z = z
                            worst = (f, fh)
                    bump("uniformity_halfspaces_tested", tested)
                    bump("uniformity_runs")
                    zmax[0] = max(zmax[0], abs(worst_z))
                    if abs(worst_z) > Z_ALARM:
                        raise Violation(
                            ID, "not_uniform",
                            f"{c}: a half-space holding {worst[0]:.4f} of the volume received "
                            f"{worst[1]:.4f} of {n} samples (z={worst_z:.1f})", call=c, op=oi)
            cov.append((d_out, (plan["clouds"][c["t"]]["cls"] if c["t"] != "est" else "zonotope"),
                        n_class(n), str(c["engine"]), c.get("l1") is not None,
                        c.get("relative", True), sk, "repeat" if "repeat_of" in c else "first",
                        bool(c.get("uniform"))))
            bump("sampling_calls")
    except Violation as v:
        violation = v.as_dict()
    if LP_INCONCLUSIVE[0]:
        bump("oracle_lp_inconclusive", LP_INCONCLUSIVE[0])
    return {"violation": violation, "digest": log.digest(), "steps": steps, "counters": counters,
            "cov": cov, "nontrivial": nontrivial, "zmax": zmax[0]}


# ----------------------------------------------------------------------------
# minimisation / reporting helpers
# ----------------------------------------------------------------------------

def plan_size(plan):
    return len(plan["ops"]) + sum(v["P"].shape[0] for v in plan["clouds"].values()) // 4


def _renumber(ops_old, keep):
    """drop ops not in keep; fix repeat_of indices; drop repeats whose source is gone."""
    remap, out = {}, []
    for i, op in enumerate(ops_old):
        if i not in keep:
            continue
        if "call" in op and "repeat_of" in op["call"]:
            src = op["call"]["repeat_of"]
            c = dict(op["call"])
            if src in remap:
                c["repeat_of"] = remap[src]
            else:
                c.pop("repeat_of")
            op = {"call": c}
        remap[i] = len(out)
        out.append(op)
    return out


def candidates(plan):
    ops = plan["ops"]
    n = len(ops)
    for size in (n // 2, n // 4, 1):
        if size < 1:
            continue
        for start in range(0, n, size):
            keep = set(range(n)) - set(range(start, start + size))
            if not keep:
                continue
            p = dict(plan)
            p["ops"] = _renumber(ops, keep)
            yield p
    for i, op in enumerate(ops):
        if "call" not in op:
            continue
        c = op["call"]
        for k, v in (("n", 7), ("n", 1), ("engine", None), ("l1", None)):
            if c.get(k) is not None and c.get(k) != v and not c.get("uniform"):
                c2 = dict(c)
                if v is None and k == "l1":
                    c2.pop("l1")
                else:
                    c2[k] = v
                p = dict(plan)
                p["ops"] = ops[:i] + [{"call": c2}] + ops[i + 1:]
                yield p
        if isinstance(c["seed"], dict):
            c2 = dict(c)
            c2["seed"] = 1
            p = dict(plan)
            p["ops"] = ops[:i] + [{"call": c2}] + ops[i + 1:]
            yield p
    # fewer points in a cloud
    for name, cl in plan["clouds"].items():
        Pm = cl["P"]
        if Pm.shape[0] > plan["dim"] + 2:
            for j in range(Pm.shape[0]):
                p = dict(plan)
                p["clouds"] = dict(plan["clouds"])
                p["clouds"][name] = {"cls": cl["cls"], "P": np.delete(Pm, j, axis=0)}
                yield p


def signature(plan, vio):
    d = vio.get("detail", {})
    c = d.get("call", {})
    s = {"class": vio["class"], "target": "est" if c.get("t") == "est" else "hull"}
    for k in ("l1_requested", "l1_covers_all_chromaticities", "exc"):
        if k in d:
            s[k] = d[k]
    if vio["class"] in ("sampling_raised",):
        s["l1_requested"] = c.get("l1") is not None
        s["n_rec"] = plan["sys"]["n_rec"] if (plan["sys"] and c.get("t") == "est") else None
    return s


def sample_repr(plan):
    return {"run_seed": plan["run_seed"], "mode": plan["mode"], "dim": plan["dim"],
            "clouds": {k: {"class": v["cls"], "points": int(v["P"].shape[0])}
                       for k, v in plan["clouds"].items()},
            "system": None if plan["sys"] is None else {k: plan["sys"][k] for k in
                                                        ("n_rec", "n_src")},
            "ops": plan["ops"]}


def extra_evidence(results):
    mz = max((r.get("zmax", 0.0) for r in results), default=0.0)
    return {"uniformity_max_abs_z": round(mz, 3), "uniformity_alarm_threshold": Z_ALARM}


# ----------------------------------------------------------------------------
# sensitivity canaries
# ----------------------------------------------------------------------------

_S = "api/sampling.py"
_E = "api/estimator.py"
_B = "api/barycentric.py"
CANARIES = [
    ("choice_ignores_volume", [(_S,
        "sample_indices = rng.choice(len(vols), size=n, p=vols / vols.sum())",
        "sample_indices = rng.choice(len(vols), size=n)")]),
    ("dirichlet_alpha_2", [(_S,
        "probs = dirichlet.rvs([1] * (dims + 1), size=n, random_state=rng)",
        "probs = dirichlet.rvs([2] * (dims + 1), size=n, random_state=rng)")]),
    ("seed_ignored", [(_S,
        "    if (seed is None) or isinstance(seed, int):\n        rng = default_rng(seed)",
        "    if (seed is None) or isinstance(seed, int):\n        rng = default_rng()")]),
    ("global_numpy_rng_used", [(_S,
        "sample_indices = rng.choice(len(vols), size=n, p=vols / vols.sum())",
        "sample_indices = np.random.choice(len(vols), size=n, p=vols / vols.sum())")]),
    ("qmc_points_not_normalised", [(_S,
        "            probs[total : count + total] = probs_ / l1norm(\n                probs_, axis=-1, keepdims=True\n            )",
        "            probs[total : count + total] = probs_")]),
    ("hull_of_all_points_not_vertices", [(_S,
        "    hull = P[ConvexHull(P, qhull_options=qhull_options).vertices]\n",
        "    hull = P[ConvexHull(P, qhull_options=qhull_options).vertices][:-1] if P.shape[0] > 12 else P[ConvexHull(P, qhull_options=qhull_options).vertices]\n")]),
    ("n_off_by_one_for_large_n", [(_S,
        "    return np.einsum(\"ijk, ij -> ik\", deln[sample_indices], probs)",
        "    out = np.einsum(\"ijk, ij -> ik\", deln[sample_indices], probs)\n    return out[:-1] if n > 5000 else out")]),
    ("l1_rescale_missing", [(_E,
        "            return cartesian_to_barycentric(X, L1=l1)",
        "            return cartesian_to_barycentric(X, L1=(l1 if n > 2 else None))")]),
    ("estimator_uses_unbounded_proxy_always", [(_E,
        "        bounded = np.all(np.isfinite(self.ub))\n        P = self._get_P_from_A(relative=relative, bounded=bounded)\n        if l1 is None:",
        "        bounded = np.all(np.isfinite(self.ub))\n        P = self._get_P_from_A(relative=relative, bounded=bounded)\n        if seed == 2:\n            P = P * 1.02\n        if l1 is None:")]),
    ("volume_abs_dropped", [(_S,
        "    vols = np.abs(\n        np.linalg.det(deln[:, :dims, :] - deln[:, dims:, :])\n    ) / factorial(dims)",
        "    vols = np.maximum(\n        np.linalg.det(deln[:, :dims, :] - deln[:, dims:, :]), 1e-12\n    ) / factorial(dims)")]),
]
