#!/bin/bash
# Run every check's thorough tier once (false-alarm hunt on the unchanged tree; no evidence
# written).  usage: tools/thorough_all.sh [VERIF_SEED] [checks...]
cd "$(dirname "$0")/.."
seed=${1:-0}; shift
checks=${@:-C02 C20 C18 C11 C13 C05 C14}
export VERIF_REPLAY_DIR=${SOAK_REPLAY_DIR:-/tmp/soak_replays}
mkdir -p "$VERIF_REPLAY_DIR"
for c in $checks; do
  out=$(VERIF_SEED=$seed timeout 7300 /venv/bin/python -m sim.runner $c --tier thorough --no-evidence 2>&1)
  rc=$?
  echo "seed=$seed $c rc=$rc $(echo "$out" | grep -E 'runs, ' | tail -1)"
  if [ $rc -ne 0 ]; then echo "$out" | grep -E "violation:|VIOLATION|HARNESS" | head -8; fi
done
