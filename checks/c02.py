"""C02 - a registered system is the exact linear model of the receptor responses.

Simulated system: 1-2 ReceptorEstimator "clients" driven by seeded histories of
registration calls (the C14 alphabet) with queries, interrupted queries and
rejected registrations in between.

Reference model: a *spec model* - a tiny state machine {filters, domain, sources,
K, baseline} whose transitions are the documented meaning of each registration
call and whose answers are computed by the harness's own quadrature (explicit
trapezoid weights, own domain equalisation, own K / baseline algebra).  After
every step of the history the four C02 observables (capture, relative_capture,
system_capture, system_relative_capture) of the real object must equal the
model's, the capture predicted from intensities must equal the capture of the
physically mixed spectrum, and right after an adaptation to a background the
relative capture of that background must be 1.

This differs from C14 (normal-form replay: same code, other history) in that the
reference is *stateless arithmetic*: a registration that is wrong in the same way
on every route (add_baseline ignored, K added instead of replaced, matrix K
transposed, A computed on the wrong domain) is invisible to C14 and visible here.
"""
from __future__ import annotations

import copy
import warnings

import numpy as np

from checks import c14
from sim.kernel import (EventLog, Outcome, PlanRng, Violation, call, compare, fingerprint, sig)
from sim.seams import (LineInterrupter, SimInterrupt, SolveSeam, WarningsAsErrors,
                       ambient_perturb, import_dreye, own_entropy)

ID = "C02"
PANEL_PER_MODE = 3
PER_RUN_CAP = 600
WALL_CAP = {"quick": 300, "thorough": 6000}
MINIMISE_S = 45.0
MINIMISE_TOTAL_S = 180.0
MAX_REPORTS = 4

RULE = ("seeded histories over the estimator's registration calls (constructor route and "
        "explicit route, own / foreign / partially overlapping domains, scalar / vector / matrix "
        "K, scalar / vector baseline, add / replace adaptations) with pure, interrupted and "
        "rejected calls in between; after every step every C02 observable is compared with a "
        "stateless spec model (own quadrature, own K/baseline algebra); distinct = distinct "
        "(domain kind, K class, baseline class, mutator trigram set, #add-chain, foreign system, "
        "fault kinds fired) keys; a run is non-trivial when at least one adaptation by "
        "background / system intensities or one re-registration happened")
ASSUMPTIONS = [
    "spec-model transitions are the documented meaning of the registration calls: "
    "K := 1/(q_b [+ baseline]) (replace) or K + 1/(...) (add); adding a per-receptor state to a "
    "*matrix* K is not documented and not asserted (K becomes 'unknown' until replaced)",
    "foreign-domain captures follow the equalisation rule of C19 (uniform grid on the overlap, "
    "step = overlap / round(overlap / coarsest mean step), linear interpolation); configurations "
    "whose step count sits within 1e-6 of a rounding tie are not compared",
    "comparison tolerance rtol 1e-9 (pure float arithmetic on both sides, no solver)",
    "sampled, not exhaustive",
]
COMPONENTS = {
    "real": ["dreye (imported from /repo working tree)", "numpy", "scipy.interpolate (inside dreye)"],
    "wrapped": ["cvxpy.Problem.solve (only for the solver-backed queries placed between "
                "registrations)"],
    "simulated": ["client interleaving (seeded schedule)", "interruption (sys.monitoring LINE "
                  "events in /repo/dreye code)", "warnings filter", "ambient RNG state"],
    "reference_model": ["SpecModel (harness-side quadrature and K/baseline algebra; shares no "
                        "code with dreye)"],
    "absent_in_code_under_test": ["clock", "network", "disk", "threads"],
}

_dreye = None


def setup():
    global _dreye
    if _dreye is None:
        warnings.filterwarnings("ignore")
        _dreye = import_dreye()
        c14.setup()
    return _dreye


def batches(tier):
    if tier == "quick":
        return [("clean", 400), ("faults", 200), ("exh", len(c14.exh_sequences(2)))]
    return [("clean", 16000), ("faults", 8000), ("exh", len(c14.exh_sequences(3)))]


# ----------------------------------------------------------------------------
# spec model (shares no code with dreye)
# ----------------------------------------------------------------------------

def _weights(dom, n):
    """Trapezoid weights on a grid: scalar step or ascending coordinate array."""
    w = np.zeros(n)
    if isinstance(dom, (int, float)):
        d = np.full(n - 1, float(dom))
    else:
        x = np.asarray(dom, float)
        d = x[1:] - x[:-1]
    w[:-1] += d / 2.0
    w[1:] += d / 2.0
    return w


class Ambiguous(Exception):
    """The equalised grid of this pair of domains hinges on a rounding tie."""


def _equalise(own, other):
    lo = max(float(np.min(own)), float(np.min(other)))
    hi = min(float(np.max(own)), float(np.max(other)))
    step = max(float(np.mean(np.diff(np.sort(own)))), float(np.mean(np.diff(np.sort(other)))))
    ratio = (hi - lo) / step
    if abs((ratio % 1.0) - 0.5) < 1e-6 or ratio < 1.0 + 1e-6:
        raise Ambiguous()
    n = int(round(ratio))
    return lo + (hi - lo) * (np.arange(n + 1) / n)


def _interp_rows(x_new, x, Y):
    Y = np.asarray(Y, float)
    flat = Y.reshape(-1, Y.shape[-1])
    out = np.stack([np.interp(x_new, x, row) for row in flat])
    return out.reshape(Y.shape[:-1] + (len(x_new),))


class SpecModel:
    def __init__(self, F, dom):
        self.F = np.asarray(F, float)
        self.dom = dom if isinstance(dom, (int, float)) else np.asarray(dom, float)
        self.K = np.ones(1)
        self.K_known = True
        self.b = np.zeros(1)
        self.S = None          # sources as given
        self.S_dom = None      # None: the filters' own grid; else the foreign coordinate array
        self.n_src = None

    # -- quadrature --------------------------------------------------------------------------
    def capture(self, signals, fdom=None):
        """[..., i, j] = integral of signal i x filter j (1-D signals: [j])."""
        s = np.asarray(signals, float)
        F = self.F
        if fdom is None:
            w = _weights(self.dom, F.shape[-1])
        else:
            fd = np.asarray(fdom, float)
            if np.any(np.diff(fd) < 0):          # not ascending: pair up and sort
                order = np.argsort(fd, kind="stable")
                fd, s = fd[order], s[..., order]
            x = _equalise(self.dom, fd)
            F = _interp_rows(x, self.dom, F)
            s = _interp_rows(x, fd, s)
            w = _weights(x, len(x))
        if s.ndim == 1:
            return (F * s) @ w
        return np.einsum("...id,jd,d->...ij", s, F, w)

    def relative(self, Q):
        if not self.K_known:
            raise Ambiguous()
        T = Q + self.b
        if self.K.ndim <= 1:
            return T * self.K
        return np.einsum("jk,...k->...j", self.K, T)

    def mix(self, X):
        """Spectrum of the physical mixture sum_k x_k source_k, for X of shape (..., n_src)."""
        return np.einsum("...k,kd->...d", np.asarray(X, float), self.S)

    def system_capture(self, X):
        X = np.asarray(X, float)
        m = self.mix(X)
        flat = m.reshape(-1, m.shape[-1])
        Q = self.capture(flat, self.S_dom)
        return Q.reshape(X.shape[:-1] + (self.F.shape[0],))

    # -- transitions -------------------------------------------------------------------------
    def _adapt(self, qb, add_baseline, add):
        if add_baseline:
            qb = qb + self.b
        if add:
            if self.K.ndim > 1:
                self.K_known = False      # matrix + per-receptor vector: not documented
                return
            if self.K_known:
                self.K = self.K + 1.0 / qb
        else:
            self.K = 1.0 / qb
            self.K_known = True

    def apply(self, op, pool):
        m = op["m"]
        if m == "register_adaptation":
            self.K = np.atleast_1d(np.asarray(pool[op["K"]], float))
            self.K_known = True
        elif m == "register_baseline":
            self.b = np.atleast_1d(np.asarray(pool[op["baseline"]], float))
        elif m == "register_system":
            self.S = np.asarray(pool[op["sources"]], float)
            d = op.get("domain")
            self.S_dom = None if d is None else np.asarray(pool[d], float)
            self.n_src = self.S.shape[0]
        elif m == "register_background_adaptation":
            d = op.get("domain")
            qb = self.capture(pool[op["background"]], None if d is None else pool[d])
            self._adapt(qb, op["add_baseline"], op["add"])
        elif m == "register_system_adaptation":
            qb = self.system_capture(pool[op["x"]])
            self._adapt(qb, op["add_baseline"], op["add"])
        elif m in ("register_bounds", "register_targets", "fit"):
            pass
        else:
            raise KeyError(m)


# ----------------------------------------------------------------------------
# plan generation
# ----------------------------------------------------------------------------

def make_pool(rng: PlanRng):
    pool, meta = c14.make_pool(rng)
    n_dom, n_rec = meta["n_dom"], meta["n_rec"]
    pool["sig1"] = sig(rng.uniform(0.0, 2.0, n_dom))
    if meta["kind"] != "step":
        x = pool["DOM"]
        # a second foreign domain that overlaps the filters' domain only partially
        span = x[-1] - x[0]
        lo = x[0] + rng.uniform(0.05, 0.3) * span
        hi = x[-1] + rng.uniform(-0.2, 0.3) * span
        n_fd = rng.integers(6, 15)
        fd2 = np.sort(sig(np.linspace(lo, hi, n_fd) + np.concatenate(
            [[0.0], rng.uniform(-0.2, 0.2, n_fd - 2) * (hi - lo) / n_fd, [0.0]])))
        pool["FD2"] = fd2
        k = rng.integers(1, 5)
        pool["SF1"] = sig(c14._bumps(rng, k, fd2, area=(0.6, 3.0)))
        meta["n_src"]["SF1"] = k
        pool["bgF2"] = sig(rng.uniform(0.5, 2.0, n_fd))
        pool["sigF2"] = sig(rng.uniform(0.0, 2.0, (2, n_fd)))
        # make sure every size has its bound / intensity payloads (c14 made them for `ks` only)
    if meta["kind"] != "step":
        # the first foreign domain once more, reported from long to short wavelengths (an
        # instrument's own order): the same spectra, samples reversed with their domain
        pool["FDd"] = np.array(pool["FD"][::-1], copy=True)
        pool["SF0d"] = np.array(pool["SF0"][:, ::-1], copy=True)
        meta["n_src"]["SF0d"] = meta["n_src"]["SF0"]
        pool["bgFd"] = np.array(pool["bgF"][::-1], copy=True)
        pool["sigFd"] = np.array(pool["sigF"][:, ::-1], copy=True)
    ks = sorted(set(meta["n_src"].values()))
    for k in ks:
        if f"x{k}a" not in pool:
            pool[f"lb{k}a"] = sig(rng.uniform(0.05, 0.5, k))
            pool[f"ub{k}a"] = sig(rng.uniform(1.0, 4.0, k))
            pool[f"ub{k}b"] = sig(rng.uniform(5.0, 10.0, k))
            pool[f"lb{k}B"] = sig(rng.uniform(4.1, 4.9, k))
            pool[f"ub{k}i"] = np.asarray([rng.integers(2, 9) for _ in range(k)], dtype=np.int64)
            pool[f"lb{k}i"] = np.zeros(k, dtype=np.int64)
            pool[f"x{k}a"] = sig(rng.uniform(0.5, 3.0, k))
            pool[f"x{k}b"] = sig(rng.uniform(0.5, 3.0, k))
            pool[f"U{k}"] = sig(rng.uniform(0.05, 0.95, (5, k)))
            pool[f"Eps{k}"] = sig(rng.uniform(0.01, 1.0, (n_rec, k)))
            pool[f"xbad{k}"] = sig(rng.uniform(0.5, 3.0, k + 1))
            pool[f"X{k}"] = sig(rng.uniform(0.0, 6.0, (6, k)))
            if k >= 2:
                mix = rng.uniform(1.0, 6.0, k)
                mix[rng.integers(0, k - 1)] = np.inf
                pool[f"ubmix{k}"] = sig(mix)
        # leading batch axes (documented: X of shape (..., n_sources)); the middle axis has the
        # receptor count so that a wrongly transposed matrix product still "fits"
        pool[f"X3{k}"] = sig(rng.uniform(0.0, 4.0, (2, n_rec, k)))
        pool[f"X4{k}"] = sig(rng.uniform(0.0, 4.0, (2, 1, 3, k)))
    meta["ks"] = ks
    # an adaptation state in "bright" units (captures ~1e11, K ~1e-11): same structure as
    # Km / Kv0, tiny absolute magnitude
    pool["Kms"] = sig(np.asarray(pool["Km"]) * 1e-11)
    pool["Kvs"] = sig(np.asarray(pool["Kv0"]) * 1e-11)
    return pool, meta


def random_mutator(rng, sym, meta, allow_reject=False):
    op = c14.random_mutator(rng, sym, meta, allow_reject=allow_reject)
    if op["m"] == "register_adaptation" and rng.coin(0.2):
        op["K"] = rng.choice(["Kms", "Kvs"])
    if meta["kind"] != "step" and not op.get("reject"):
        if op["m"] == "register_system" and op.get("domain") == "FD" and rng.coin(0.5):
            k = meta["n_src"]["SF1"]
            op.update(sources="SF1", domain="FD2")
            for b, names in (("lb", [None, "lbs", f"lb{k}a"]), ("ub", [None, "ubs0", f"ub{k}a"])):
                op[b] = rng.choice(names)
        elif op["m"] == "register_background_adaptation" and op.get("domain") == "FD" \
                and rng.coin(0.5):
            op.update(background="bgF2", domain="FD2")
        elif op["m"] == "register_system" and op.get("domain") == "FD" and rng.coin(0.4):
            op.update(sources="SF0d", domain="FDd")
        elif op["m"] == "register_background_adaptation" and op.get("domain") == "FD" \
                and rng.coin(0.4):
            op.update(background="bgFd", domain="FDd")
    return op


def random_pure_query(rng, meta, solver_ok=True):
    """A read-only call placed between registrations (must not change any C02 answer)."""
    return c14.random_query(rng, meta, solver_ok=solver_ok, slow_ok=False)


FAULT_KINDS = ["line_interrupt", "solver_error", "warnings_as_errors"]


def generate_exh(rs, tier, index):
    """Exhaustively up to a bounded length: every valid sequence over C14's 15-variant concrete
    registration alphabet (from an empty estimator and after a register_system prefix), each
    with seeded payloads, the model battery after every step."""
    rng = PlanRng(rs)
    pool, meta = make_pool(rng)
    seqs = c14.exh_sequences(2 if tier == "quick" else 3)
    prefix, seq = seqs[index % len(seqs)]
    ops = []
    sym = c14.Sym()
    for i in ([0] if prefix else []) + list(seq):
        op = dict(c14.EXH_ALPHABET[i][1])
        k = sym.n_src
        for key, v in list(op.items()):
            if isinstance(v, str) and "{k0}" in v:
                op[key] = v.replace("{k0}", str(meta["n_src"]["S0"]))
            elif isinstance(v, str) and "{k}" in v:
                op[key] = v.replace("{k}", str(k))
        s2 = sym.copy()
        assert c14.sym_apply(s2, op, meta), (op, seq)
        sym = s2
        ops.append(op)
    return {"check": ID, "run_seed": rs, "mode": "exh", "pool": pool, "meta": meta,
            "clients": [{"id": 0, "ctor": {"w": None}, "ops": ops}],
            "schedule": [0] * len(ops), "exh": {"prefix": prefix, "seq": list(seq)}}


def generate(rs, mode, tier, index):
    if mode == "exh":
        return generate_exh(rs, tier, index)
    rng = PlanRng(rs)
    pool, meta = make_pool(rng)
    n_clients = rng.choice([1, 2], p=[0.7, 0.3])
    kinds = [k for k in FAULT_KINDS if rng.coin(0.6)] or ["line_interrupt"]
    clients = []
    for cid in range(n_clients):
        sym = c14.Sym()
        ctor = {"w": rng.choice([None, None, "w1"])}
        if rng.coin(0.35):
            if rng.coin(0.6):
                ctor["K"] = rng.choice(["Ks", "Kv0", "Km", "Kms"])
            if rng.coin(0.6):
                ctor["baseline"] = rng.choice(["bs", "bv0", "bvz"])
            if rng.coin(0.6):
                src = rng.choice([n for n in meta["n_src"] if not n.startswith("SF")])
                kk = meta["n_src"][src]
                ctor["sources"] = src
                ctor["lb"] = rng.choice([None, "lbs", f"lb{kk}a"])
                ctor["ub"] = rng.choice([None, "ubs0", f"ub{kk}a"])
        for op0 in c14.ctor_ops({"ctor": ctor}):
            c14.sym_apply(sym, op0, meta)
        n_mut = rng.integers(2, 12 if n_clients == 1 else 7)
        q_density = rng.choice([0.0, 0.3, 0.8])
        ops = []
        muts = 0
        while muts < n_mut:
            op = random_mutator(rng, sym, meta, allow_reject=(mode == "faults"))
            s2 = sym.copy()
            if not c14.sym_apply(s2, op, meta):
                continue
            sym = s2
            ops.append(op)
            muts += 1
            while rng.coin(q_density / (1 + q_density)):
                q = random_pure_query(rng, meta, solver_ok=rng.coin(0.3))
                if mode == "faults" and rng.coin(0.6):
                    q["fault"] = {"kind": rng.choice(kinds), "frac": float(sig(rng.random(), 4)),
                                  "k": rng.integers(0, 5),
                                  "count": rng.choice([1, 4, 10, 0], p=[2, 3, 3, 2])}
                ops.append(q)
            if mode == "faults" and rng.coin(0.15):
                ops.append({"px": "rng_perturb", "k": rng.integers(1, 1000)})
        if mode == "faults":
            # crash-point sweeps over the C02 observables themselves, on the final state
            for _ in range(rng.integers(1, 3)):
                qn = rng.choice(["capture", "relative_capture", "system_capture",
                                 "system_relative_capture"])
                a = {"signals": "sig"} if "system" not in qn else {"X": "X?"}
                ops.append({"q": qn, "a": a, "fault": {
                    "kind": "line_interrupt", "frac": float(sig(rng.random(), 4)), "k": 0,
                    "count": rng.choice([0, 10])}})
        clients.append({"id": cid, "ctor": ctor, "ops": ops})
    sched = []
    for c in clients:
        sched += [c["id"]] * len(c["ops"])
    sched = rng.shuffle(sched)
    # observation schedule: a battery after every step freezes anything the library computes
    # lazily on first access; in 40 % of the runs most steps are therefore *not* observed
    # (the final state always is)
    observe = "every" if rng.coin(0.6) else "sparse"
    obs = [True] * len(sched) if observe == "every" else [rng.coin(0.25) for _ in sched]
    return {"check": ID, "run_seed": rs, "mode": mode, "pool": pool, "meta": meta,
            "clients": clients, "schedule": sched, "observe": obs}


# ----------------------------------------------------------------------------
# execution
# ----------------------------------------------------------------------------

RTOL, ATOL = 1e-9, 1e-11


class ClientState:
    def __init__(self, client, pool):
        self.client = client
        self.est = c14.new_estimator(client, pool)
        self.model = SpecModel(pool["F"], pool["DOM"])
        self.sym = c14.Sym()
        self.pos = 0
        self.muts = []
        self.alive = True


def execute(plan):
    setup()
    own_entropy(plan["run_seed"])
    pool = {k: (v.copy() if isinstance(v, np.ndarray) else v) for k, v in plan["pool"].items()}
    meta = plan["meta"]
    log = EventLog()
    counters = {}
    cov_faults = set()
    trigrams = set()

    def bump(k, n=1):
        counters[k] = counters.get(k, 0) + n

    violation = None
    steps = 0
    states = {}
    pool_fp = {k: fingerprint(v) for k, v in pool.items() if isinstance(v, np.ndarray)}

    def check_pool(where):
        for k, fp in pool_fp.items():
            if fingerprint(pool[k]) != fp:
                raise Violation(ID, "caller_array_modified",
                                f"array {k!r} supplied by the caller was modified by {where}",
                                array=k, where=where)

    def expect(cs, name, got: Outcome, want_fn, where, **detail):
        """Compare one observable with the spec model's value."""
        try:
            want = want_fn()
        except Ambiguous:
            bump("not_compared_ambiguous")
            return
        bump("model_comparisons")
        log.add(cs.client["id"], "o:" + name, got)
        if not got.ok:
            raise Violation(ID, "observable_raised",
                            f"{name} raised {got.brief()} {where}; the model's value is defined",
                            query=name, where=where, exc=got.value, **detail)
        wa = np.asarray(want, float)
        mag = float(np.max(np.abs(wa))) if wa.size else 0.0
        ok, d, why = compare(np.asarray(got.value), wa, RTOL, ATOL * min(1.0, mag))
        if ok and mag > 0 and np.isfinite(d):
            margin[0] = max(margin[0], d / (RTOL * mag + ATOL * min(1.0, mag)))
        if not ok:
            raise Violation(ID, "differs_from_model",
                            f"{name} {where}: {why} (estimator vs. spec model)",
                            query=name, where=where, **detail)

    obs_now = [True]
    margin = [0.0]      # worst observed deviation from the model, in units of the tolerance

    def battery(cs, where, force=False):
        if not (force or obs_now[0]):
            bump("steps_not_observed")
            return
        est, M = cs.est, cs.model
        kind = meta["kind"]
        sigs = [("sig", None), ("sig1", None)]
        if kind != "step":
            sigs += [("sigF", "FD"), ("sigF2", "FD2"), ("sig", "FD3"), ("sigFd", "FDd")]
        for sname, dname in sigs:
            s = pool[sname]
            d = None if dname is None else pool[dname]
            tag = f"({sname}{', domain=' + dname if dname else ''})"
            expect(cs, "capture" + tag, call(est.capture, s, domain=d),
                   lambda: M.capture(s, d), where, foreign=dname is not None)
            expect(cs, "relative_capture" + tag, call(est.relative_capture, s, domain=d),
                   lambda: M.relative(M.capture(s, d)), where, foreign=dname is not None,
                   Kclass=_kclass(M))
        if M.S is None:
            return
        k = M.n_src
        for xname in (f"X{k}", f"x{k}a", f"X3{k}", f"X4{k}"):
            X = pool[xname]
            nd = np.asarray(X).ndim
            expect(cs, f"system_capture({xname})", call(est.system_capture, X),
                   lambda: M.system_capture(X), where, xdim=nd, foreign=M.S_dom is not None)
            expect(cs, f"system_relative_capture({xname})",
                   call(est.system_relative_capture, X),
                   lambda: M.relative(M.system_capture(X)), where, xdim=nd, Kclass=_kclass(M),
                   foreign=M.S_dom is not None)
        # the statement's identity, code path against code path: capture predicted from
        # intensities == capture of the physically mixed spectrum handed to capture()
        X = pool[f"X{k}"]
        mixed = np.einsum("ik,kd->id", X, M.S)
        dn = M.S_dom
        a = call(est.system_capture, X)
        b = call(est.capture, mixed, domain=dn)
        bump("model_comparisons")
        ok, d, why = compare(a, b, RTOL, ATOL)
        if not ok:
            raise Violation(ID, "prediction_differs_from_mixed_spectrum",
                            f"system_capture(X) != capture(sum_k x_k source_k) {where}: {why}",
                            query="system_capture", where=where, foreign=dn is not None)

    def unity_after(cs, op, where):
        """Right after adapting to a background (replace, baseline included) the relative
        capture of that same background is 1 for every receptor."""
        if op.get("add") or not op.get("add_baseline"):
            return
        est = cs.est
        n_rec = meta["n_rec"]
        if op["m"] == "register_background_adaptation":
            d = op.get("domain")
            got = call(est.relative_capture, pool[op["background"]],
                       domain=None if d is None else pool[d])
            name = "relative_capture(background)"
        else:
            got = call(est.system_relative_capture, pool[op["x"]])
            name = "system_relative_capture(x_background)"
        bump("unity_checks")
        log.add(cs.client["id"], "u:" + name, got)
        if not got.ok:
            raise Violation(ID, "observable_raised", f"{name} raised {got.brief()} {where}",
                            query=name, where=where, exc=got.value)
        ok, _, why = compare(np.asarray(got.value), np.ones(n_rec), RTOL, ATOL)
        if not ok:
            raise Violation(ID, "adapted_background_not_unity",
                            f"{name} right after {op['m']}(add_baseline=True, add=False) is "
                            f"{np.asarray(got.value)!r}, not 1: {why}", query=name, where=where)

    try:
        for c in plan["clients"]:
            try:
                cs = ClientState(c, pool)
            except Exception as e:  # noqa: BLE001
                raise Violation(ID, "registration_failed",
                                f"ReceptorEstimator(...) with valid constructor arguments "
                                f"{c['ctor']} raised {type(e).__name__}: {str(e)[:120]}",
                                op={"m": "constructor"}, exc=type(e).__name__)
            states[c["id"]] = cs
            for op0 in c14.ctor_ops(c):
                c14.sym_apply(cs.sym, op0, meta)
                cs.model.apply(op0, pool)
                cs.muts.append(op0)
            if cs.muts:
                bump("reach:constructor_registrations", len(cs.muts))
            battery(cs, "after construction")
        for step, cid in enumerate(plan["schedule"]):
            cs = states[cid]
            if not cs.alive or cs.pos >= len(cs.client["ops"]):
                continue
            op = cs.client["ops"][cs.pos]
            cs.pos += 1
            steps += 1
            ob = plan.get("observe")
            obs_now[0] = True if ob is None or step >= len(ob) else bool(ob[step])
            if "px" in op:
                ambient_perturb(op["k"])
                bump("fault:rng_perturb")
                cov_faults.add("rng_perturb")
                log.add(cid, "x:rng_perturb", op["k"])
                continue
            if "m" in op and op.get("reject"):
                op_call = {k_: v_ for k_, v_ in op.items() if k_ != "reject"}
                out = call(c14.apply_mutator, cs.est, op_call, pool)
                check_pool(f"rejected {op['m']}")
                log.add(cid, "m!:" + op["m"], out)
                if out.ok:
                    cs.alive = False
                    bump("rejected_registration_was_accepted")
                    continue
                bump("fault:rejected_registration")
                cov_faults.add("rejected_registration")
                battery(cs, f"after rejected {op['m']} at step {step}")
                continue
            if "m" in op:
                s2 = cs.sym.copy()
                if not c14.sym_apply(s2, op, meta):
                    raise ValueError(f"plan invalid at client {cid} op {cs.pos - 1}: {op}")
                out = call(c14.apply_mutator, cs.est, op, pool)
                check_pool(f"mutator {op['m']}")
                log.add(cid, "m:" + op["m"], out)
                if not out.ok:
                    if op["m"] == "fit":
                        cs.alive = False      # solver failure inside fit(): C04/C14 matter
                        bump("history_ended_by_failed_fit")
                        continue
                    raise Violation(ID, "registration_failed",
                                    f"{op['m']} with valid arguments raised {out.brief()}",
                                    op=op, exc=out.value)
                cs.sym = s2
                try:
                    cs.model.apply(op, pool)
                except Ambiguous:
                    # the background's grid hinges on a rounding tie: K cannot be predicted
                    cs.model.K_known = False
                cs.muts.append(op)
                if len(cs.muts) >= 3:
                    trigrams.add(tuple(o["m"] for o in cs.muts[-3:]))
                where = f"after {op['m']} (step {step}, {len(cs.muts)} registrations)"
                if op["m"] in ("register_background_adaptation", "register_system_adaptation"):
                    if obs_now[0]:
                        unity_after(cs, op, where)
                    bump("reach:adaptation_add" if op["add"] else "reach:adaptation_replace")
                battery(cs, where)
                continue
            # ---- a read-only call between registrations (possibly faulted) ----
            q = op
            n_src = cs.sym.n_src
            fault = q.get("fault")
            qpool = dict(pool, **c14.derive_args(copy.deepcopy(cs.est), pool, meta, n_src))
            if fault is None:
                r = call(c14.run_query, cs.est, q, qpool, n_src)
                log.add(cid, "q:" + q["q"], r)
                bump("pure_calls")
            else:
                kind = fault["kind"]
                probe = copy.deepcopy(cs.est)
                with SolveSeam() as seam0, LineInterrupter(None) as li0:
                    call(c14.run_query, probe, q, qpool, n_src)
                n_lines, n_solves = li0.count, seam0.count
                fired = False
                if kind == "line_interrupt":
                    cnt = int(fault.get("count", 1))
                    pts = []
                    if n_lines and cnt == 0:
                        stride = max(1, -(-n_lines // 60))
                        pts = list(range(int(fault["frac"] * stride) % stride, n_lines, stride))
                    elif n_lines:
                        pts = [int(((fault["frac"] + j / cnt) % 1.0) * n_lines)
                               for j in range(cnt)]
                    for n in pts or [None]:
                        with LineInterrupter(n) as li:
                            try:
                                r = call(c14.run_query, cs.est, q, qpool, n_src)
                            except SimInterrupt:
                                r = Outcome("exc", "SimInterrupt")
                        log.add(cid, "q!:" + q["q"], r)
                        if li.fired_at is not None:
                            fired = True
                            bump("fault:line_interrupt")
                            bump(f"crash:{li.fired_at[0]}:{li.fired_at[1]}")
                            check_pool(f"aborted {q['q']}")
                            battery(cs, f"after {q['q']} aborted at crash point {n}/{n_lines} "
                                        f"(step {step})")
                elif kind == "solver_error":
                    k = fault["k"] % n_solves if n_solves else 0
                    with SolveSeam(fail_at={k}) as seam:
                        r = call(c14.run_query, cs.est, q, qpool, n_src)
                    fired = seam.fired > 0
                    log.add(cid, "q!:" + q["q"], r)
                    if fired:
                        bump("fault:solver_error")
                elif kind == "warnings_as_errors":
                    with WarningsAsErrors():
                        r = call(c14.run_query, cs.est, q, qpool, n_src)
                    fired = not r.ok
                    log.add(cid, "q!:" + q["q"], r)
                    if fired:
                        bump("fault:warnings_as_errors")
                else:
                    raise KeyError(kind)
                if fired:
                    cov_faults.add(kind)
                else:
                    bump("fault_not_fired:" + kind)
            check_pool(f"query {q['q']}")
            battery(cs, f"after {'faulted ' if fault else ''}{q['q']} (step {step})")
        for cs in states.values():
            if cs.alive:
                battery(cs, "at the end of the history", force=True)
    except Violation as v:
        violation = v.as_dict()

    adds = sum(1 for cs in states.values() for o in cs.muts if o.get("add"))
    adapt = sum(1 for cs in states.values() for o in cs.muts
                if o["m"] in ("register_background_adaptation", "register_system_adaptation"))
    rereg = sum(max(0, sum(1 for o in cs.muts if o["m"] == m) - 1) for cs in states.values()
                for m in ("register_system", "register_adaptation", "register_baseline"))
    foreign = any(o.get("domain") for cs in states.values() for o in cs.muts)
    if foreign:
        bump("reach:foreign_domain_registration")
    if any(cs.model.K.ndim > 1 and cs.model.K_known for cs in states.values()):
        bump("reach:matrix_K_at_end")
    if any(not cs.model.K_known for cs in states.values()):
        bump("reach:K_unknown_at_end")
    if adds >= 2:
        bump("reach:add_chain_ge2")
    if len(states) > 1:
        bump("reach:multi_client_runs")
    cov = [(meta["kind"], tuple(sorted({_kclass(cs.model) for cs in states.values()})),
            tuple(sorted({cs.model.b.shape[0] > 1 for cs in states.values()})),
            tuple(sorted(trigrams))[:6], adds, foreign, tuple(sorted(cov_faults)))]
    return {"violation": violation, "digest": log.digest(), "steps": steps, "counters": counters,
            "cov": cov, "nontrivial": (adapt + rereg) > 0, "margin": margin[0]}


def _kclass(M):
    if not M.K_known:
        return "unknown"
    if M.K.ndim > 1:
        return "matrix"
    return "scalar" if M.K.shape[0] == 1 else "vector"


# ----------------------------------------------------------------------------
# minimisation / reporting helpers
# ----------------------------------------------------------------------------

def plan_size(plan):
    return sum(len(c["ops"]) for c in plan["clients"])


def candidates(plan):
    meta = plan["meta"]
    clients = plan["clients"]
    if len(clients) > 1:
        for i in range(len(clients)):
            yield c14._rebuild(plan, clients[:i] + clients[i + 1:])
    for ci, c in enumerate(clients):
        ops = c["ops"]
        n = len(ops)
        seen = set()
        for s in [s for s in (n // 2, n // 4, 2, 1) if s >= 1]:
            for start in range(0, n, s):
                key = (start, min(n, start + s))
                if key in seen:
                    continue
                seen.add(key)
                new_ops = ops[:key[0]] + ops[key[1]:]
                if not c14.valid_history(c14.ctor_ops(c) + new_ops, meta):
                    continue
                c2 = dict(c)
                c2["ops"] = new_ops
                yield c14._rebuild(plan, clients[:ci] + [c2] + clients[ci + 1:])
    for ci, c in enumerate(clients):
        for oi, op in enumerate(c["ops"]):
            if "fault" in op:
                o2 = {k: v for k, v in op.items() if k != "fault"}
                c2 = dict(c)
                c2["ops"] = c["ops"][:oi] + [o2] + c["ops"][oi + 1:]
                yield c14._rebuild(plan, clients[:ci] + [c2] + clients[ci + 1:])
    if plan.get("observe") and not all(plan["observe"]):
        p = dict(plan)
        p["observe"] = [True] * len(plan["observe"])
        yield p
    for ci, c in enumerate(clients):
        for key in ("w", "K", "baseline", "sources"):
            if c["ctor"].get(key):
                ct = dict(c["ctor"])
                ct[key] = None
                if key == "sources":
                    ct["lb"] = ct["ub"] = None
                c2 = dict(c)
                c2["ctor"] = ct
                if c14.valid_history(c14.ctor_ops(c2) + c2["ops"], meta):
                    yield c14._rebuild(plan, clients[:ci] + [c2] + clients[ci + 1:])


def signature(plan, vio):
    d = vio.get("detail", {})
    s = {"class": vio["class"]}
    if "query" in d:
        s["query"] = str(d["query"]).split("(")[0]
    for key in ("xdim", "Kclass", "foreign", "exc"):
        if key in d:
            s[key] = d[key]
    if "op" in d:
        s["op"] = d["op"].get("m")
    return s


def sample_repr(plan):
    return {"run_seed": plan["run_seed"], "mode": plan["mode"],
            "config": {k: plan["meta"][k] for k in ("kind", "n_rec", "n_dom")},
            "n_src_of_source_sets": plan["meta"]["n_src"],
            "schedule": plan["schedule"],
            "clients": [[(o.get("m") or o.get("q") or o.get("px")) +
                         ("!" + o["fault"]["kind"] if "fault" in o else "")
                         for o in c["ops"]] for c in plan["clients"]],
            "first_client_ctor": plan["clients"][0]["ctor"],
            "first_client_ops_full": plan["clients"][0]["ops"][:5]}


def extra_evidence(results):
    pts = {}
    for r in results:
        for k, v in r.get("counters", {}).items():
            if k.startswith("crash:"):
                pts[k[6:]] = pts.get(k[6:], 0) + v
    n_exh = sum(1 for r in results if r.get("mode") == "exh")
    worst = max([r.get("margin", 0.0) for r in results] or [0.0])
    return {"distinct_crash_points_hit": len(pts),
            "worst_deviation_from_model_in_units_of_tolerance": float(f"{worst:.3g}"),
            "exhaustive_short_histories": {
                "alphabet": len(c14.EXH_ALPHABET), "executed": n_exh,
                "note": "every valid sequence over the 15-variant registration alphabet (from an "
                        "empty estimator and after a register_system prefix), length <= 2 in the "
                        "quick tier, <= 3 in the thorough tier, seeded payloads, model battery "
                        "after every step"},
            "spec_model": "SpecModel in checks/c02.py: explicit trapezoid weights, own domain "
                          "equalisation (C19 rule), einsum K/baseline algebra; transitions for the "
                          "8 registration calls",
            "tolerances": {"rtol": RTOL, "atol": ATOL}}


# ----------------------------------------------------------------------------
# sensitivity canaries (scratch copies only)
# ----------------------------------------------------------------------------

_E = "api/estimator.py"
CANARIES = [
    ("background_adaptation_ignores_add_baseline", [(_E,
        "        qb = self.capture(background, domain=domain)\n        if add_baseline:\n            qb = qb + self.baseline\n",
        "        qb = self.capture(background, domain=domain)\n        if add_baseline and not add:\n            qb = qb + self.baseline\n")]),
    ("system_adaptation_replace_adds", [(_E,
        "        if add:\n            self.K = self.K + 1/qb\n        else:\n            self.K = 1/qb\n",
        "        if add or self.K.shape == np.shape(qb):\n            self.K = self.K + 1/qb\n        else:\n            self.K = 1/qb\n")]),
    ("matrix_K_transposed", [(_E,
        "            B = B @ self.K.T\n",
        "            B = B @ self.K\n")]),
    ("baseline_after_K", [(_E,
        "        B = B + self.baseline\n        if self.K.ndim <= 1:\n            B = B * self.K\n",
        "        if self.K.ndim <= 1:\n            return B * self.K + self.baseline\n        B = B + self.baseline\n        if self.K.ndim <= 1:\n            B = B * self.K\n")]),
    ("A_on_filter_grid_for_foreign_sources", [(_E,
        "        self.A = self.capture(sources, domain=domain).T\n",
        "        self.A = (self.capture(sources, domain=domain).T if sources.shape[-1] != self.filters.shape[-1]\n                  else calculate_capture(self.filters, sources, domain=self.domain).T)\n")]),
    ("rectangle_rule_for_step_domain", [("api/capture.py",
        "        if trapz:\n            return _trapezoid(filters * signals, dx=domain, axis=-1)\n",
        "        if trapz and np.ndim(signals) > 3:\n            return _trapezoid(filters * signals, dx=domain, axis=-1)\n")]),
    ("system_capture_clips_negative", [(_E,
        "        X = np.asarray(X)\n        return X @ self.A.T\n",
        "        X = np.asarray(X)\n        return np.maximum(X, 0.04) @ self.A.T\n")]),
    ("query_sets_K_temporarily", c14.CANARIES[9][1]),
]
