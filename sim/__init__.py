"""Deterministic simulation harness for gucky92/dreye (see /verif/DESIGN.md)."""
