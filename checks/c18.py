"""C18 - gamut-size and divergence metrics equal their geometric / information definitions.

What a simulator can own here is the randomness: mean width (and every gamut metric built on
it) is a Monte-Carlo estimate over random unit directions drawn from `default_rng(seed)`.
A run is a seeded *history* of metric calls on a few clouds (and one estimator), interleaved
with ambient-RNG perturbation, unrelated seeded dreye calls and raw numpy draws; earlier
requests are repeated verbatim later and must come back bit-identical, seed+1 must differ,
and - because the same seed means the same directions - a cloud and its translated / scaled /
row-permuted twin must agree *exactly*, which turns the property's invariances from
statistical into exact statements.  The value itself is judged against references that do
not depend on how directions are drawn (perimeter / pi in 2-D, the closed form for boxes, a
harness-side Monte-Carlo estimate with its own 20 000 directions), at |z| > 7.

Volume, the volume-based gamut and the Jensen-Shannon divergence draw nothing; their clauses
are evaluated as oracles on the same seeded clouds (exact references: qhull volume within the
affine span via SVD, closed forms), and are listed as such in the evidence.
"""
from __future__ import annotations

import math
import warnings

import numpy as np

from sim.kernel import EventLog, Outcome, PlanRng, Violation, call, fingerprint, sig
from sim.seams import (LineInterrupter, SimInterrupt, ambient_perturb, import_dreye, own_entropy)

ID = "C18"
USES_PRISTINE = True
PANEL_PER_MODE = 4
PER_RUN_CAP = 300
WALL_CAP = {"quick": 300, "thorough": 3600}
MINIMISE_S = 40.0
MINIMISE_TOTAL_S = 150.0
MAX_REPORTS = 4

RULE = ("seeded histories of 6-20 metric calls (compute_mean_width, compute_volume, "
        "compute_gamut width / volume with relative_to and at_l1, ReceptorEstimator.compute_gamut, "
        "Jensen-Shannon divergence / similarity) on 2-3 clouds of 8 classes in 1-5 dimensions, "
        "interleaved with ambient-RNG perturbation, unrelated seeded dreye calls and raw numpy "
        "draws, with verbatim repeats and same-seed twins (translate / scale / permute / rotate / "
        "superset); distinct = distinct (cloud classes, dims, op-kind set, twin kinds, fault "
        "kinds) keys; non-trivial = at least one Monte-Carlo metric was requested twice across a "
        "perturbation, or compared with a same-seed twin")
ASSUMPTIONS = [
    "value references are independent of how the code draws directions: perimeter/pi (2-D), "
    "sum of side lengths x Gamma(d/2)/(sqrt(pi) Gamma((d+1)/2)) (boxes), otherwise a harness "
    "Monte-Carlo estimate over 20 000 own directions; alarm only at |z| > 7 with the standard "
    "error taken from the harness's per-direction widths",
    "exact same-seed relations are asserted only between clouds of identical shape (translation, "
    "scaling, row permutation, vectorized flag); rotation and superset relations use the "
    "Monte-Carlo tolerance",
    "exactly flat clouds are built by construction (constant / duplicated coordinate columns); "
    "the mean width of a flat cloud is only compared relationally (the statement does not say "
    "whether it is taken in the ambient space or in the affine span)",
    "volume / volume-gamut / Jensen-Shannon clauses draw no randomness: they are input-"
    "quantified oracles evaluated on the same seeded clouds, not simulation results",
    "sampled, not exhaustive",
]
COMPONENTS = {
    "real": ["dreye.api.metrics, dreye.api.project, dreye.api.barycentric, ReceptorEstimator "
             "(imported from /repo working tree)", "numpy PCG64", "qhull", "sklearn PCA"],
    "simulated": ["ambient RNG state", "interleaved RNG consumers", "interruption of a metric "
                  "call (sys.monitoring LINE events)", "owned OS entropy for unseeded default_rng"],
    "reference_model": ["harness-side geometry: qhull perimeter / volume in the affine span (SVD), "
                        "closed-form box mean width, own Monte-Carlo mean width"],
    "absent_in_code_under_test": ["clock", "network", "disk", "threads"],
}

_dreye = None


def setup():
    global _dreye
    if _dreye is None:
        warnings.filterwarnings("ignore")
        _dreye = import_dreye()
    return _dreye


def batches(tier):
    if tier == "quick":
        return [("clean", 500), ("faults", 200)]
    return [("clean", 20000), ("faults", 8000)]


# ----------------------------------------------------------------------------
# plan generation
# ----------------------------------------------------------------------------

CLOUD_CLASSES = ["random", "interior", "box", "simplex", "skewed", "flat_const", "flat_dup", "line",
                 "few", "point"]


def _rot(rng: PlanRng, d):
    q, r = np.linalg.qr(rng.g.standard_normal((d, d)))
    return q * np.sign(np.diag(r))


def make_cloud(rng: PlanRng, cls, d):
    m = rng.integers(d + 2, 30)
    meta = {"cls": cls, "d": d, "flat": False}
    if cls == "random":
        X = rng.uniform(0.1, 3.0, (m, d))
    elif cls == "interior":
        V = rng.uniform(0.1, 3.0, (d + 3, d))
        w = rng.g.dirichlet(np.ones(d + 3), size=m)
        X = np.vstack([V, w @ V])
    elif cls == "box":
        sides = rng.uniform(0.3, 3.0, d)
        corners = np.array(np.meshgrid(*[[0.0, 1.0]] * d)).reshape(d, -1).T * sides
        X = corners + rng.uniform(0.1, 1.0, d)
        meta["sides"] = sig(sides)
        X = np.vstack([X, X.mean(0)])
    elif cls == "simplex":
        X = np.vstack([np.zeros(d), np.eye(d)]) * rng.uniform(0.5, 2.0) + 0.2
    elif cls == "skewed":
        X = rng.uniform(0.1, 1.0, (m, d)) * np.array([1.0, 40.0, 0.03, 5.0, 0.5][:d])
    elif cls == "point":
        # one point, possibly repeated: zero width, zero volume
        X = np.repeat(rng.uniform(0.1, 3.0, (1, d)), rng.integers(1, 4), axis=0)
        meta["flat"] = True
    elif cls == "few":
        # fewer points than dimensions + 1: necessarily flat (2 points span a segment, ...)
        X = rng.uniform(0.1, 3.0, (rng.integers(2, d), d))
        meta["flat"] = True
    elif cls == "flat_const":
        Y = rng.uniform(0.1, 3.0, (m, max(d - 1, 1)))
        X = np.c_[Y, np.full(m, float(sig(rng.uniform(0.2, 2.0))))] if d > 1 else Y
        meta["flat"] = d > 1
    elif cls == "flat_dup":
        Y = rng.uniform(0.1, 3.0, (m, max(d - 1, 1)))
        X = np.c_[Y, Y[:, 0]] if d > 1 else Y
        meta["flat"] = d > 1
    else:  # line
        t = rng.uniform(0.0, 1.0, m)
        dirv = rng.uniform(0.2, 1.0, d)
        X = 0.3 + t[:, None] * dirv[None, :]
        meta["flat"] = d > 1
    X = sig(X)
    if cls == "box":
        # keep the closed form exact: rebuild the corners from the rounded sides
        sides = meta["sides"]
        off = X.min(0)
        corners = np.array(np.meshgrid(*[[0.0, 1.0]] * d)).reshape(d, -1).T * sides
        X = np.vstack([corners + off, (corners + off).mean(0)])
    if cls in ("flat_dup",) and d > 1:
        X[:, -1] = X[:, 0]          # rounding must not un-flatten it
    if cls == "line" and d > 1:
        t = sig(rng.uniform(0.0, 1.0, X.shape[0]), 3)
        X = 0.25 + t[:, None] * np.array([1.0, 2.0, 0.5, 4.0, 0.25][:d])[None, :]   # exact in binary
    return X, meta


def generate(rs, mode, tier, index):
    rng = PlanRng(rs)
    pool, cmeta = {}, {}
    n_clouds = rng.integers(2, 3)
    for i in range(n_clouds):
        d = rng.choice([1, 2, 3, 4, 5], p=[0.08, 0.37, 0.3, 0.15, 0.1])
        cls = rng.choice(CLOUD_CLASSES if d > 1 else ["random"])
        pool[f"X{i}"], cmeta[f"X{i}"] = make_cloud(rng, cls, d)
        X = pool[f"X{i}"]
        extra = rng.uniform(X.min(0) - 0.5, X.max(0) + 0.5, (rng.integers(1, 6), X.shape[1]))
        if cmeta[f"X{i}"]["flat"]:
            extra = X[rng.g.integers(0, len(X), 3)] * 0.5 + X[rng.g.integers(0, len(X), 3)] * 0.5
        pool[f"X{i}+"] = np.vstack([X, sig(extra)])
        pool[f"R{i}"] = _rot(rng, X.shape[1]) if X.shape[1] > 1 else np.eye(1)
        pool[f"t{i}"] = sig(rng.uniform(-5.0, 5.0, X.shape[1]))
    # non-negative capture-like clouds for the gamut metric
    k = rng.choice([2, 3, 4], p=[0.25, 0.5, 0.25])
    mg = rng.integers(k + 2, 16)
    G = sig(rng.uniform(0.05, 2.0, (mg, k)))
    if rng.coin(0.4):
        G[0] = 0.0     # the dark point: part of every gamut whose sources can be switched off
    pool["G"] = G
    pool["G+"] = np.vstack([G, sig(rng.uniform(0.05, 2.5, (rng.integers(1, 5), k)))])
    # estimator for the fractional gamut in absolute capture
    n_rec, n_src, n_dom = k, rng.integers(k, k + 3), rng.integers(6, 10)
    F = sig(rng.uniform(0.05, 1.0, (n_rec, n_dom)) ** 2)
    S = sig(rng.uniform(0.0, 1.0, (n_src, n_dom)) ** 3 * rng.uniform(1.0, 3.0))
    pool["F"], pool["S"] = F, S
    pool["ub"] = sig(rng.uniform(0.5, 4.0, n_src))
    pool["Kv"] = sig(rng.uniform(0.5, 2.0, n_rec))
    pool["bv"] = sig(rng.uniform(0.0, 0.3, n_rec))
    # distributions for the divergence
    L = rng.integers(2, 8)
    pool["p"] = sig(rng.uniform(0.0, 1.0, L) * (rng.random(L) < 0.8))
    pool["q"] = sig(rng.uniform(0.0, 1.0, L))
    if pool["p"].sum() == 0:
        pool["p"][0] = 0.5
    pool["cs"] = sig(rng.uniform(0.01, 1e3, 2))
    names = [f"X{i}" for i in range(n_clouds)]
    n_ops = rng.integers(6, 20)
    ops = []
    # a small pool of seeds per run: the same seed meets other clouds, other n, other options
    seeds = [rng.integers(0, 2 ** 31) for _ in range(3)]
    pool["bg"] = sig(rng.uniform(0.3, 2.0, n_dom))
    pool["xa"] = sig(rng.uniform(0.3, 1.5, n_src))
    pool["Kv2"] = sig(rng.uniform(0.5, 2.0, n_rec))
    pool["bv2"] = sig(rng.uniform(0.0, 0.3, n_rec))

    def seed():
        return rng.choice(seeds) if rng.coin(0.7) else rng.integers(0, 2 ** 31)

    for _ in range(n_ops):
        c = rng.choice(["mw", "mw", "vol", "gamut", "gamut", "est", "jsd", "px", "consumer",
                        "repeat", "emut"], p=[3, 2, 2, 2, 1.5, 1.5, 1, 1.5, 1, 2.5, 1.5])
        if c == "mw":
            ops.append({"f": "mw", "X": rng.choice(names), "seed": seed(),
                        "n": rng.choice([1000, 1000, 200, 3000]), "vec": rng.coin(0.5),
                        "center": rng.coin(0.5),
                        "twin": rng.choice([None, "translate", "scale", "permute", "rotate",
                                            "superset", "vecflip"])})
        elif c == "vol":
            ops.append({"f": "vol", "X": rng.choice(names),
                        "twin": rng.choice([None, "translate", "scale", "permute", "rotate",
                                            "superset"])})
        elif c == "gamut":
            l1s = np.sort(G.sum(1))
            ops.append({"f": "gamut", "metric": rng.choice(["width", "volume"]),
                        "seed": seed(),
                        "rel": rng.choice([None, None, "self", "superset"]),
                        # a total between the smallest and the largest one (a real slice), or
                        # one outside that range (nothing to slice: the metric is 0)
                        "at_l1": rng.choice([None, None, float(sig(rng.uniform(l1s[0], l1s[-1]))),
                                             float(sig(rng.uniform(l1s[0], l1s[-1]))),
                                             # exactly the total of one of the points (round
                                             # numbers in practice): that point lies *on* the plane
                                             float(l1s[rng.integers(1, len(l1s) - 2)]) if len(l1s) > 3
                                             else float(sig(rng.uniform(l1s[0], l1s[-1]))),
                                             float(sig(l1s[-1] * 1.5))]),
                        "ctn": rng.coin(0.3),
                        "twin": rng.choice([None, "scale", "permute", "ctnflip"])})
        elif c == "est":
            ops.append({"f": "est", "metric": rng.choice(["width", "volume"]),
                        "seed": seed(), "relative": rng.coin(0.5),
                        "fraction": rng.coin(0.8),
                        "at_l1": None})
        elif c == "emut":
            # the persistent estimator's registered values change between metric requests
            ops.append({"emut": rng.choice(["bg_adapt", "sys_adapt", "adapt", "baseline",
                                            "bounds"]), "add": rng.coin(0.25)})
            # ... and an earlier estimator request is asked again in the new state
            prev_est = [o for o in ops if o.get("f") == "est"]
            if prev_est and rng.coin(0.7):
                ops.append(dict(rng.choice(prev_est)))
            elif rng.coin(0.5):
                ops.append({"f": "est", "metric": rng.choice(["width", "volume"]),
                            "seed": seed(), "relative": rng.coin(0.5),
                            "fraction": rng.coin(0.8), "at_l1": None})
        elif c == "jsd":
            ops.append({"f": "jsd"})
        elif c == "px":
            ops.append({"px": rng.integers(1, 10 ** 6)})
        elif c == "consumer":
            ops.append({"consumer": rng.choice(["sample", "np", "mw_unseeded"]),
                        "k": rng.integers(1, 1000)})
        else:
            prev = [i for i, o in enumerate(ops) if o.get("f") in ("mw", "gamut", "est", "vol")]
            if prev:
                ops.append({"repeat_of": rng.choice(prev)})
    for o in ops:
        # exactly flat clouds stay exactly flat only under row permutation and power-of-two
        # scaling; a translated / rotated copy is flat up to rounding, where qhull may or may
        # not report degeneracy - not what the relation is about
        if o.get("f") in ("mw", "vol") and cmeta[o["X"]]["flat"] and \
                o.get("twin") not in (None, "permute", "scale", "vecflip"):
            o["twin"] = "permute"
    if mode == "faults":
        prev = [i for i, o in enumerate(ops) if o.get("f") in ("mw", "gamut", "est", "vol")]
        for _ in range(rng.integers(1, 3)):
            if prev:
                ops.append({"abort_of": rng.choice(prev), "frac": float(sig(rng.random(), 4))})
                ops.append({"repeat_of": ops[-1]["abort_of"]})
    return {"check": ID, "run_seed": rs, "mode": mode, "pool": pool, "cmeta": cmeta, "ops": ops,
            "mc_seed": rng.integers(0, 2 ** 31), "pristine": rng.coin(0.5),
            "est_ctor": rng.choice(["plain", "K", "Kb"])}


# ----------------------------------------------------------------------------
# harness-side geometry (no dreye code)
# ----------------------------------------------------------------------------

def c_d(d):
    """E|u_1| for u uniform on the unit sphere of R^d: mean width of a unit segment."""
    return math.gamma(d / 2) / (math.sqrt(math.pi) * math.gamma((d + 1) / 2))


def span_coords(X, tol=1e-9):
    Xc = X - X.mean(0)
    if not np.any(Xc):
        return Xc[:, :0], 0
    U, s, _ = np.linalg.svd(Xc, full_matrices=False)
    r = int(np.sum(s > tol * max(s[0], 1e-300)))
    return U[:, :r] * s[:r], r


def span_is_ambiguous(X):
    """True when the cloud is neither clearly flat nor clearly full in some direction: a
    singular value between 1e-9 and 2e-2 of the largest one.  The library calls a direction
    flat when it explains less than 1e-5 of the variance (std ratio 3e-3); a reference that
    calls it flat at 1e-9 would disagree about the *dimension* of the span in between, which
    is a convention, not a defect."""
    X = np.asarray(X, float)
    if X.ndim == 1 or X.shape[1] < 2 or len(X) < 2:
        return False
    sv = np.linalg.svd(X - X.mean(0), compute_uv=False)
    if sv[0] == 0:
        return False
    r = sv / sv[0]
    return bool(np.any((r > 1e-9) & (r < 2e-2)))


def volume_ref(X):
    from scipy.spatial import ConvexHull
    X = np.asarray(X, float)
    if X.ndim == 1 or X.shape[1] < 2:
        return float(np.max(X) - np.min(X))
    Y, r = span_coords(X)
    if r == 0:
        return 0.0
    if r == 1:
        return float(Y[:, 0].max() - Y[:, 0].min())
    return float(ConvexHull(Y).volume)


def width_ref(X, meta, mc_seed, n_code):
    """(reference mean width, its standard error, per-direction sd) independent of the code's
    direction sampler; None when no absolute reference is asserted (flat clouds)."""
    from scipy.spatial import ConvexHull
    X = np.asarray(X, float)
    if X.ndim == 1 or X.shape[1] < 2:
        return float(np.max(X) - np.min(X)), 0.0, 0.0
    d = X.shape[1]
    g = np.random.Generator(np.random.PCG64(mc_seed))
    R = g.standard_normal((d, 20000))
    R /= np.linalg.norm(R, axis=0)
    pr = X @ R
    w = pr.max(0) - pr.min(0)
    sd = float(w.std())
    if meta.get("flat"):
        return None, None, sd
    if meta["cls"] == "box":
        return float(np.sum(meta["sides"]) * c_d(d)), 0.0, sd
    if d == 2:
        return float(ConvexHull(X).area / math.pi), 0.0, sd
    return float(w.mean()), sd / math.sqrt(len(w)), sd


# ----------------------------------------------------------------------------
# execution
# ----------------------------------------------------------------------------

def twin_of(kind, X, pool, name):
    i = name[1:]
    if kind == "translate":
        return X + pool[f"t{i}"]
    if kind == "scale":
        return X * 4.0
    if kind == "permute":
        return X[::-1].copy()
    if kind == "rotate":
        return X @ pool[f"R{i}"].T
    if kind == "superset":
        return pool[f"X{i}+"]
    return X


def run_op(op, pool, X=None, est=None):
    d = _dreye
    f = op["f"]
    if f == "mw":
        X = pool[op["X"]] if X is None else X
        return d.compute_mean_width(X, n=op["n"], vectorized=op["vec"], center=op["center"],
                                    seed=op["seed"])
    if f == "vol":
        X = pool[op["X"]] if X is None else X
        return d.compute_volume(X)
    if f == "gamut":
        G = pool["G"] if X is None else X
        rel = None
        if op["rel"] == "self":
            rel = G
        elif op["rel"] == "superset":
            rel = op.get("_rel_twin", pool["G+"])
        return d.compute_gamut(G, at_l1=op["at_l1"], relative_to=rel, metric=op["metric"],
                               seed=op["seed"], center_to_neutral=bool(op.get("ctn", False)))
    if f == "est":
        return est.compute_gamut(fraction=op.get("fraction", True), metric=op["metric"],
                                 seed=op["seed"], relative=op["relative"])
    raise KeyError(f)


def new_est(pool, how="plain", state=None):
    kw = {}
    if state is not None:
        kw = {"K": state["K"], "baseline": state["baseline"]}
    elif how in ("K", "Kb"):
        kw = {"K": pool["Kv"]}
        if how == "Kb":
            kw["baseline"] = pool["bv"]
    est = _dreye.ReceptorEstimator(pool["F"], domain=1.0, **kw)
    est.register_system(pool["S"], lb=None if state is None else state["lb"],
                        ub=pool["ub"] if state is None else state["ub"])
    return est


def est_state(est):
    return {"K": np.array(est.K, copy=True), "baseline": np.array(est.baseline, copy=True),
            "lb": np.array(est.lb, copy=True), "ub": np.array(est.ub, copy=True)}


def apply_emut(est, op, pool):
    m = op["emut"]
    if m == "bg_adapt":
        est.register_background_adaptation(pool["bg"], add=op["add"])
    elif m == "sys_adapt":
        est.register_system_adaptation(pool["xa"], add=op["add"])
    elif m == "adapt":
        est.register_adaptation(pool["Kv2"])
    elif m == "baseline":
        est.register_baseline(pool["bv2"])
    else:
        est.register_bounds(ub=pool["ub"] * 0.5)


def pristine_metric(pool, op, state):
    """Runs in a forked child of a process that imported dreye and never called it: the same
    request, answered where no earlier request can have left anything behind."""
    setup()
    import warnings as _w
    _w.filterwarnings("ignore")
    est = new_est(pool, state=state) if state is not None else None
    return float(run_op(op, pool, est=est))


def chroma_measure(pts, metric, mc_seed, n_code):
    """(value, se, sd) of the chromaticity hull of `pts` in the unit-edge barycentric chart:
    the chart is a similarity of ratio 1/sqrt(2) of the plane {sum = 1}."""
    from scipy.spatial import ConvexHull
    pts = pts[pts.sum(1) != 0]          # the dark point has no chromaticity
    C = pts / pts.sum(1, keepdims=True)
    k = C.shape[1]
    if span_is_ambiguous(C):
        return None, None, None
    Y, r = span_coords(C)
    Y = Y / math.sqrt(2.0)
    if r == 0:
        return 0.0, 0.0, 0.0
    if metric == "volume" or k == 2:
        if r == 1:
            return float(Y[:, 0].max() - Y[:, 0].min()), 0.0, 0.0
        if metric == "volume" and r < k - 1:
            return None, None, None      # flat inside the chart: PCA path, not asserted here
        if metric == "volume":
            return float(ConvexHull(Y).volume), 0.0, 0.0
    if r < k - 1:
        return None, None, None          # mean width depends on the ambient dimension
    g = np.random.Generator(np.random.PCG64(mc_seed))
    R = g.standard_normal((r, 20000))
    R /= np.linalg.norm(R, axis=0)
    pr = Y @ R
    w = pr.max(0) - pr.min(0)
    sd = float(w.std())
    if r == 2:
        return float(ConvexHull(Y).area / math.pi), 0.0, sd
    return float(w.mean()), sd / math.sqrt(len(w)), sd


def slice_points(G, at_l1):
    """Vertices of hull(G) cut by the plane {sum = at_l1}: every crossing of a segment between
    a point below and a point above (a superset of the hull's crossing edges - same hull)."""
    l1 = G.sum(1)
    lo, hi = G[l1 < at_l1], G[l1 > at_l1]
    on = G[l1 == at_l1]
    out = [on] if len(on) else []
    for a in lo:
        t = (at_l1 - a.sum()) / (hi.sum(1) - a.sum())
        out.append(a[None, :] + t[:, None] * (hi - a[None, :]))
    return np.vstack(out)


def execute(plan):
    setup()
    own_entropy(plan["run_seed"])
    _MARGIN["relation"] = _MARGIN["z"] = 0.0
    pool = {k: (v.copy() if isinstance(v, np.ndarray) else v) for k, v in plan["pool"].items()}
    cmeta = plan["cmeta"]
    log = EventLog()
    counters = {}
    violation = None
    steps = 0
    answers = {}
    perturbed_since = {}
    cov_ops, cov_twins, cov_faults = set(), set(), set()
    nontrivial = False

    def bump(k, n=1):
        counters[k] = counters.get(k, 0) + n

    est = new_est(pool, plan.get("est_ctor", "plain"))
    use_pristine = bool(plan.get("pristine"))
    pool_fp = {k: fingerprint(v) for k, v in pool.items() if isinstance(v, np.ndarray)}

    def vs_pristine(op, v, where):
        """the same request in a process where nothing was ever requested before"""
        from sim import pristine
        o = {k: x for k, x in op.items() if not k.startswith("_")}
        st = est_state(est) if op["f"] == "est" else None
        ref = pristine.client().call("checks.c18", "pristine_metric", plan["pool"], o, st)
        bump("pristine_process_references")
        if abs(ref - v) > 1e-11 * max(abs(ref), abs(v), 1e-300):
            raise Violation(ID, "differs_from_pristine_process",
                            f"{op['f']} {where} returned {v!r}; the same request in a process "
                            f"where dreye was never called before returns {ref!r}", f=op["f"])

    def check_pool(where):
        for k, fp in pool_fp.items():
            if fingerprint(pool[k]) != fp:
                raise Violation(ID, "caller_array_modified",
                                f"array {k!r} supplied by the caller was modified by {where}",
                                array=k, where=where)

    def val(op, r: Outcome, what):
        if not r.ok:
            raise Violation(ID, "metric_raised", f"{what} raised {r.brief()}", f=op["f"],
                            exc=r.value)
        v = float(r.value)
        if not math.isfinite(v):
            raise Violation(ID, "metric_not_finite", f"{what} returned {v}", f=op["f"])
        return v

    try:
        for i, op in enumerate(plan["ops"]):
            steps += 1
            if "px" in op:
                ambient_perturb(op["px"])
                bump("fault:rng_perturb")
                cov_faults.add("rng_perturb")
                for k in perturbed_since:
                    perturbed_since[k] = True
                log.add(i, "px", op["px"])
                continue
            if "consumer" in op:
                c = op["consumer"]
                if c == "sample":
                    _dreye.sample_in_hull(pool["G"], 5, seed=op["k"])
                elif c == "np":
                    np.random.random(op["k"] % 7 + 1)
                    np.random.default_rng(op["k"]).standard_normal(3)
                else:
                    _dreye.compute_mean_width(pool["G"], n=50)     # unseeded: owned entropy
                bump("fault:interleaved_rng_consumer")
                cov_faults.add("consumer")
                for k in perturbed_since:
                    perturbed_since[k] = True
                log.add(i, "consumer", c)
                continue
            if "emut" in op:
                r = call(apply_emut, est, op, pool)
                log.add(i, "emut", op["emut"], r.kind)
                bump("estimator_registrations")
                if not r.ok:
                    raise Violation(ID, "registration_failed",
                                    f"{op['emut']} on the estimator raised {r.brief()}", f="emut",
                                    exc=r.value)
                for k in perturbed_since:
                    perturbed_since[k] = True
                # an earlier estimator answer is no longer the answer of the current state
                for j in [j for j, o in enumerate(plan["ops"][:i]) if o.get("f") == "est"]:
                    answers.pop(j, None)
                continue
            if "abort_of" in op:
                src = plan["ops"][op["abort_of"]]
                with LineInterrupter(None) as li0:
                    call(run_op, src, pool, None, est)
                if li0.count:
                    with LineInterrupter(int(op["frac"] * li0.count)) as li:
                        try:
                            call(run_op, src, pool, None, est)
                        except SimInterrupt:
                            bump("fault:line_interrupt")
                            cov_faults.add("line_interrupt")
                    log.add(i, "abort", li.fired_at)
                check_pool("an aborted metric call")
                for k in perturbed_since:
                    perturbed_since[k] = True
                continue
            if "repeat_of" in op:
                j = op["repeat_of"]
                src = plan["ops"][j]
                if j not in answers:
                    continue
                r = call(run_op, src, pool, None, est)
                v = val(src, r, f"repeat of op {j} ({src['f']})")
                log.add(i, "repeat", v)
                bump("repeated_requests")
                if perturbed_since.get(j):
                    nontrivial = True
                    bump("reach:repeat_across_perturbation")
                if v.hex() != answers[j].hex():
                    raise Violation(ID, "same_seed_differs",
                                    f"{src['f']} requested again with the same arguments and seed "
                                    f"returned {v!r} instead of {answers[j]!r}", f=src["f"])
                continue
            f = op["f"]
            cov_ops.add(f)
            if f == "jsd":
                _jsd(pool, bump, log, i)
                continue
            r = call(run_op, op, pool, None, est)
            check_pool(f"{f}")
            v = val(op, r, f"{f} (op {i})")
            answers[i] = v
            perturbed_since[i] = False
            log.add(i, f, v)
            bump("metric_calls")
            if use_pristine:
                vs_pristine(op, v, f"(op {i})")
            if f == "mw":
                X, meta = pool[op["X"]], cmeta[op["X"]]
                ref, se_ref, sd = width_ref(X, meta, plan["mc_seed"], op["n"])
                if ref is not None:
                    se = math.sqrt((sd ** 2) / op["n"] + se_ref ** 2)
                    z = (v - ref) / se if se > 0 else (0.0 if abs(v - ref) <= 1e-9 * max(1, abs(ref))
                                                       else math.inf)
                    bump("width_value_checks")
                    if math.isfinite(z):
                        _MARGIN["z"] = max(_MARGIN["z"], abs(z))
                    if abs(z) > 7:
                        raise Violation(ID, "mean_width_wrong",
                                        f"mean width of a {meta['cls']} cloud in {meta['d']}-D is "
                                        f"{v:.6g}, reference {ref:.6g} (z = {z:.1f})", f=f,
                                        cloud=meta["cls"], d=meta["d"])
                # seed sensitivity
                if X.ndim == 2 and X.shape[1] >= 2 and sd > 0 and i % 3 == 0:
                    v2 = val(op, call(run_op, dict(op, seed=op["seed"] + 1), pool), "seed+1")
                    bump("seed_sensitivity_checks")
                    if v2.hex() == v.hex() and meta["cls"] not in ("line",):
                        raise Violation(ID, "seed_ignored", "seed and seed+1 give the identical "
                                        "mean width", f=f)
                tw = op.get("twin")
                if tw:
                    cov_twins.add(tw)
                    nontrivial = True
                    se1 = sd / math.sqrt(op["n"])
                    if tw == "vecflip":
                        vt = val(op, call(run_op, dict(op, vec=not op["vec"]), pool), "vectorized twin")
                        _exact(v, vt, 2.5e4, "vectorized and loop evaluation differ", f, tw)
                    else:
                        Xt = twin_of(tw, X, pool, op["X"])
                        vt = val(op, call(run_op, op, pool, Xt), f"{tw} twin")
                        if tw in ("translate", "permute"):
                            _exact(v, vt, 2.5e4, f"mean width changed under '{tw}' with the same "
                                   "seed", f, tw)
                        elif tw == "scale":
                            _exact(4.0 * v, vt, 1.0, "mean width is not homogeneous in scale", f, tw)
                        elif tw == "rotate":
                            if abs(vt - v) > 7 * math.sqrt(2) * se1 + 1e-9:
                                raise Violation(ID, "not_rotation_invariant",
                                                f"mean width {v:.6g} -> {vt:.6g} under a rotation "
                                                f"(MC se {se1:.3g})", f=f, twin=tw)
                        else:
                            if vt < v - 7 * math.sqrt(2) * se1 - 1e-9:
                                raise Violation(ID, "not_monotone",
                                                f"mean width decreased from {v:.6g} to {vt:.6g} "
                                                f"when points were added", f=f, twin=tw)
                    bump("twin_checks")
            elif f == "vol":
                X, meta = pool[op["X"]], cmeta[op["X"]]
                ref = volume_ref(X)
                bump("volume_value_checks")
                amb = span_is_ambiguous(X)
                if amb:
                    bump("volume_not_compared_span_dimension_ambiguous")
                if not amb and abs(v - ref) > 1e-8 * max(abs(ref), 1e-12):
                    raise Violation(ID, "volume_wrong",
                                    f"volume of a {meta['cls']} cloud in {meta['d']}-D is {v:.9g}, "
                                    f"hull volume within its affine span is {ref:.9g}", f=f,
                                    cloud=meta["cls"], d=meta["d"])
                tw = op.get("twin")
                if tw and (amb or span_is_ambiguous(twin_of(tw, X, pool, op["X"]))):
                    tw = None
                if tw:
                    cov_twins.add(tw)
                    Xt = twin_of(tw, X, pool, op["X"])
                    vt = val(op, call(run_op, op, pool, Xt), f"{tw} twin")
                    _, r = span_coords(X)
                    if tw in ("translate", "permute", "rotate"):
                        _exact(v, vt, 2.5e6, f"volume changed under '{tw}'", f, tw)
                    elif tw == "scale":
                        _exact(v * 4.0 ** max(r, 1), vt, 1e3, "volume is not homogeneous of degree "
                               "dim(span) in scale", f, tw)
                    elif vt < v * (1 - 1e-9) - 1e-12:
                        raise Violation(ID, "not_monotone", f"volume decreased from {v:.9g} to "
                                        f"{vt:.9g} when points were added", f=f, twin=tw)
                    bump("twin_checks")
            elif f == "gamut":
                G = pool["G"]
                if op["rel"] == "self" and op["at_l1"] is None:
                    _exact(v, 1.0, 1e3, "gamut relative to itself is not 1", f, "self")
                if op["rel"] == "superset" and op["at_l1"] is None:
                    # same seed -> widths per direction can only grow: <= 1 up to MC tolerance
                    lim = 1.0 + (1e-9 if op["metric"] == "volume" else 0.1)
                    if v > lim:
                        raise Violation(ID, "gamut_exceeds_superset",
                                        f"gamut relative to a superset is {v:.6g} > 1", f=f)
                if v < -1e-12:
                    raise Violation(ID, "metric_negative", f"gamut metric {v}", f=f)
                # absolute value: the chromaticity hull (of the slice at the requested total)
                l1 = G.sum(1)
                at = op["at_l1"]
                if at is not None and (np.all(l1 <= at) or np.all(l1 > at)):
                    num = (0.0, 0.0, 0.0)
                else:
                    pts = G if at is None else slice_points(G, at)
                    num = chroma_measure(pts, op["metric"], plan["mc_seed"], 1000)
                den = (1.0, 0.0, 0.0)
                if op["rel"] is not None:
                    den = chroma_measure(G if op["rel"] == "self" else pool["G+"], op["metric"],
                                         plan["mc_seed"], 1000)
                if num[0] is not None and den[0] is not None and den[0] > 0:
                    bump("gamut_value_checks")
                    ref = num[0] / den[0]
                    mc = op["metric"] == "width" and G.shape[1] > 2
                    if not mc:
                        bad = abs(v - ref) > 1e-8 * max(abs(ref), 1e-12)
                        zmsg = ""
                    else:
                        # Monte-Carlo numerator (and denominator): first-order error propagation
                        se_n = math.sqrt(num[2] ** 2 / 1000 + num[1] ** 2)
                        se_d = math.sqrt(den[2] ** 2 / 1000 + den[1] ** 2) if op["rel"] else 0.0
                        se = math.sqrt((se_n / den[0]) ** 2 + (ref * se_d / den[0]) ** 2)
                        z = (v - ref) / se if se > 0 else 0.0
                        bad = abs(z) > 7 and abs(v - ref) > 1e-9
                        zmsg = f" (z = {z:.1f})"
                    if bad:
                        raise Violation(ID, "gamut_wrong",
                                        f"compute_gamut(metric={op['metric']!r}, at_l1={at}, "
                                        f"relative_to={op['rel']}, center_to_neutral="
                                        f"{bool(op.get('ctn'))}) on {G.shape[1]} receptors is "
                                        f"{v:.9g}; the chromaticity hull gives {ref:.9g}{zmsg}",
                                        f=f, metric=op["metric"], sliced=at is not None)
                tw = op.get("twin")
                if tw == "ctnflip":
                    cov_twins.add("gctnflip")
                    nontrivial = True
                    vt = val(op, call(run_op, dict(op, ctn=not op.get("ctn", False)), pool),
                             "center_to_neutral twin")
                    _exact(v, vt, 2.5e6, "gamut metric depends on centring the chart on the neutral "
                           "point", f, tw)
                    bump("twin_checks")
                elif tw:
                    cov_twins.add("g" + tw)
                    nontrivial = True
                    Gt = G * 8.0 if tw == "scale" else G[::-1].copy()
                    o2 = dict(op)
                    if op["rel"] == "superset":
                        o2["_rel_twin"] = pool["G+"] * (8.0 if tw == "scale" else 1.0)
                    if tw == "scale" and op["at_l1"] is not None:
                        o2["at_l1"] = op["at_l1"] * 8.0
                    vt = val(op, call(run_op, o2, pool, Gt), f"gamut {tw} twin")
                    _exact(v, vt, 2.5e6, f"gamut metric changed under '{tw}' of the intensity "
                           "scale / row order with the same seed", f, tw)
                    bump("twin_checks")
            elif f == "est":
                # the same request on an estimator built directly in the current registered state
                fresh = new_est(pool, state=est_state(est))
                vf = val(op, call(run_op, op, pool, None, fresh), "fresh-estimator reference")
                bump("fresh_estimator_references")
                nontrivial = True
                _exact(v, vf, 2.5e5, "the estimator's gamut metric differs from that of an estimator "
                       "built directly with the currently registered K / baseline / bounds", f,
                       "fresh")
                lim = 1.0 + (1e-9 if op["metric"] == "volume" else 0.1)
                if not (0.0 < v <= lim) and not op["relative"] and op.get("fraction", True):
                    raise Violation(ID, "fractional_gamut_out_of_range",
                                    f"estimator's fractional gamut in absolute capture is {v:.6g}, "
                                    f"not in (0, 1]", f=f)
    except Violation as v_:
        violation = v_.as_dict()
    cov = [(tuple(sorted((m["cls"], m["d"]) for m in cmeta.values())), tuple(sorted(cov_ops)),
            tuple(sorted(cov_twins)), tuple(sorted(cov_faults)))]
    return {"violation": violation, "digest": log.digest(), "steps": steps, "counters": counters,
            "cov": cov, "nontrivial": nontrivial,
            "margin_relation": _MARGIN["relation"], "margin_z": _MARGIN["z"]}


_MARGIN = {"relation": 0.0, "z": 0.0}


def _exact(a, b, ulps, msg, f, twin):
    """'Exact' up to the rounding the relation itself introduces.  ulps is the budget in
    units of 4e-16 relative: 1 for relations that leave every operation unchanged (power-of-two
    scaling), a few thousand where coordinates are re-rounded (translation, rotation, another
    row order inside qhull, BLAS instead of a loop) - measured: 8.9e-13 relative on the volume
    of a skewed 1:40:0.03 cloud under rotation."""
    tol = ulps * 4e-16 * max(abs(a), abs(b), 1e-300) + 1e-13 * max(abs(a), abs(b))
    if tol > 0:
        _MARGIN["relation"] = max(_MARGIN["relation"], abs(a - b) / tol)
    if abs(a - b) > tol:
        raise Violation(ID, "exact_relation_broken", f"{msg}: {a!r} vs {b!r}", f=f, twin=twin)


def _jsd(pool, bump, log, i):
    d = _dreye
    p, q, (c1, c2) = pool["p"], pool["q"], pool["cs"]
    a = float(d.compute_jensen_shannon_divergence(p, q))
    b = float(d.compute_jensen_shannon_divergence(q, p))
    c = float(d.compute_jensen_shannon_divergence(p * c1, q * c2))
    z = float(d.compute_jensen_shannon_divergence(p, p * c2))
    s = float(d.compute_jensen_shannon_similarity(p, q))
    log.add(i, "jsd", a)
    bump("jsd_checks")
    P, Q = p / p.sum(), q / q.sum()
    M = 0.5 * (P + Q)

    def kl(A, B):
        m = A > 0
        return float(np.sum(A[m] * np.log2(A[m] / B[m])))
    ref = 0.5 * kl(P, M) + 0.5 * kl(Q, M)
    checks = [(abs(a - b) <= 1e-12, "not symmetric"),
              (abs(a - c) <= 1e-12, "not invariant to normalisation of its inputs"),
              (abs(z) <= 1e-12, "not zero for proportional inputs"),
              (a <= 1 + 1e-12 and a >= -1e-12, "outside [0, 1] bit"),
              (abs(a - ref) <= 1e-10, f"differs from the definition ({ref!r})"),
              (abs(s - (1 - a)) <= 1e-12, "similarity is not 1 - divergence")]
    if np.max(np.abs(P - Q)) > 1e-3:
        checks.append((a > 1e-9, "zero for non-proportional inputs"))
    for ok, msg in checks:
        if not ok:
            raise Violation(ID, "divergence_wrong", f"Jensen-Shannon divergence {a!r}: {msg}",
                            f="jsd")
    e0, e1 = np.array([1.0, 0.0, 0.0]), np.array([0.0, 2.0, 1.0])
    one = float(d.compute_jensen_shannon_divergence(e0, e1))
    if abs(one - 1.0) > 1e-12:
        raise Violation(ID, "divergence_wrong", f"disjoint supports give {one!r}, not 1 bit",
                        f="jsd")


# ----------------------------------------------------------------------------
# minimisation / reporting helpers
# ----------------------------------------------------------------------------

def plan_size(plan):
    return len(plan["ops"])


def candidates(plan):
    ops = plan["ops"]
    n = len(ops)

    def fix(new_ops, removed):
        """re-index repeat_of / abort_of after removing positions `removed`."""
        out = []
        shift = {}
        k = 0
        for i in range(n):
            if i in removed:
                continue
            shift[i] = k
            k += 1
        for i, o in enumerate(ops):
            if i in removed:
                continue
            o = dict(o)
            for key in ("repeat_of", "abort_of"):
                if key in o:
                    if o[key] in removed:
                        o = None
                        break
                    o[key] = shift[o[key]]
            if o is not None:
                out.append(o)
        return out

    seen = set()
    for s in [s for s in (n // 2, n // 4, 2, 1) if s >= 1]:
        for start in range(0, n, s):
            key = (start, min(n, start + s))
            if key in seen:
                continue
            seen.add(key)
            p = dict(plan)
            p["ops"] = fix(ops, set(range(*key)))
            yield p
    for i, o in enumerate(ops):
        if o.get("twin"):
            p = dict(plan)
            p["ops"] = ops[:i] + [dict(o, twin=None)] + ops[i + 1:]
            yield p


def signature(plan, vio):
    d = vio.get("detail", {})
    s = {"class": vio["class"]}
    for k in ("f", "twin", "cloud", "exc", "metric", "sliced"):
        if k in d:
            s[k] = d[k]
    return s


def sample_repr(plan):
    return {"run_seed": plan["run_seed"], "mode": plan["mode"],
            "clouds": {k: dict(v, shape=list(plan["pool"][k].shape)) for k, v in
                       plan["cmeta"].items()},
            "ops": [o.get("f") or ("px" if "px" in o else ("consumer" if "consumer" in o else
                    ("repeat" if "repeat_of" in o else ("emut:" + o["emut"] if "emut" in o
                                                        else "abort")))) for o in plan["ops"]],
            "first_ops_full": plan["ops"][:4]}


def extra_evidence(results):
    return {"z_threshold": 7, "harness_mc_directions": 20000,
            "worst_abs_z_of_a_mean_width_value": float(f"{max([r.get('margin_z', 0.0) for r in results] or [0.0]):.3g}"),
            "worst_same_seed_relation_deviation_in_units_of_its_budget": float(
                f"{max([r.get('margin_relation', 0.0) for r in results] or [0.0]):.3g}"),
            "input_quantified_oracles_not_simulation": ["volume", "volume-based gamut",
                                                        "Jensen-Shannon divergence"]}


# ----------------------------------------------------------------------------
# sensitivity canaries (scratch copies only)
# ----------------------------------------------------------------------------

_M = "api/metrics.py"
CANARIES = [
    ("mean_width_falls_back_to_global_rng_for_small_n", [(_M,
        "    rprojs = default_rng(seed).standard_normal(size=(X.shape[-1], n))\n",
        "    rprojs = (default_rng(seed).standard_normal(size=(X.shape[-1], n)) if n >= 1000\n              else np.random.standard_normal(size=(X.shape[-1], n)))\n")]),
    ("directions_not_normalised", [(_M,
        "    rprojs /= np.linalg.norm(rprojs, axis=0)  # normalize vectors by l2-norm\n",
        "    rprojs /= np.sqrt(X.shape[-1])  # expected norm\n")]),
    ("width_uses_max_abs", [(_M,
        "            max2[idx] = (-proj).max()\n",
        "            max2[idx] = np.abs(proj).max()\n")]),
    ("volume_flat_uses_ambient_pca_dim", [("api/project.py",
        "        ndim = np.min(np.flatnonzero(np.isclose(evar, 1))) + 1\n",
        "        ndim = np.min(np.flatnonzero(np.isclose(evar, 1, atol=0.05))) + 1\n")]),
    ("gamut_relative_ignores_seed", [(_M,
        "            center_to_neutral=center_to_neutral,\n            seed=seed,\n        )\n        return num / denom",
        "            center_to_neutral=center_to_neutral,\n        )\n        return num / denom")]),
    ("jsd_uses_l2_norm", [(_M,
        "    P, Q = P / np.linalg.norm(P, ord=1), Q / np.linalg.norm(Q, ord=1)\n",
        "    P, Q = P / np.linalg.norm(P), Q / np.linalg.norm(Q)\n")]),
    ("mean_width_seed_cached_directions", [(_M,
        "    rprojs = default_rng(seed).standard_normal(size=(X.shape[-1], n))\n",
        "    _k = (X.shape[-1], n)\n    if _k not in _DIRS:\n        _DIRS[_k] = default_rng(seed).standard_normal(size=(X.shape[-1], n))\n    rprojs = _DIRS[_k].copy()\n"),
        (_M, "def compute_mean_width(X, n=1000,", "_DIRS = {}\n\n\ndef compute_mean_width(X, n=1000,")]),
]
