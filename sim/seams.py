"""Seams the simulator owns.

* SolveSeam        - wraps cvxpy.Problem.solve: records every solve, injects
                     SolverError at the k-th solve, forces cold starts.
* ScriptedGenerator- numpy Generator subclass for the documented ``seed:
                     Generator`` seam with plan-supplied extreme draws.
* ambient_perturb  - touches the global numpy / stdlib RNG state.
* LineInterrupter  - sys.settrace tracer that aborts a call at the n-th line
                     event inside /repo/dreye frames.
"""
from __future__ import annotations

import os
import random
import sys
import warnings

import numpy as np

REPO_DREYE = os.path.realpath(os.environ.get("DREYE_SRC", "/repo")) + os.sep + "dreye" + os.sep


def import_dreye():
    """Import dreye from the working tree and assert it is the one under test."""
    root = os.path.realpath(os.environ.get("DREYE_SRC", "/repo"))
    if root not in sys.path:
        sys.path.insert(0, root)
    import dreye  # noqa: F401
    f = os.path.realpath(dreye.__file__)
    if not f.startswith(root + os.sep):
        raise RuntimeError(f"dreye resolves to {f}, not under {root}")
    return dreye


# ----------------------------------------------------------------------------
# solver seam
# ----------------------------------------------------------------------------

class SolveEvent:
    __slots__ = ("seq", "nvars", "var_shapes", "param_sizes", "status", "value",
                 "faulted", "kwargs", "depth", "solver")

    def as_tuple(self):
        return (self.seq, self.var_shapes, self.param_sizes, self.status,
                None if self.value is None else float(self.value), self.faulted)


class SolveSeam:
    """Context manager: while active, every cvxpy.Problem.solve goes through us.

    fail_at : set of *top-level* solve indices (0-based, counted within this context;
              solves that cvxpy issues from inside another solve - DQCP bisection probes -
              are recorded but neither counted nor failed: cvxpy swallows a failing probe and
              merely bisects differently, which is not a failure of the solver service as the
              library under test sees it) that raise cvxpy.SolverError instead of calling
              through.
    cold    : if True, pass warm_start=False to every solve.
    The wrapper never alters a result it lets through.
    """

    def __init__(self, fail_at=(), cold=False, record=True, on_solve=None):
        self.fail_at = set(fail_at)
        self.cold = cold
        self.record = record
        self.on_solve = on_solve
        self.events = []
        self.fired = 0
        self.count = 0
        self.depth = 0

    def __enter__(self):
        import cvxpy as cp
        self._cp = cp
        self._orig = cp.Problem.solve
        seam = self

        def solve(problem, *args, **kwargs):
            nested = seam.depth > 0
            k = seam.count if not nested else -1
            if not nested:
                seam.count += 1
            ev = SolveEvent()
            ev.seq = k
            ev.faulted = False
            ev.depth = seam.depth      # >0: a solve issued from inside another solve (bisection)
            ev.status = None
            ev.value = None
            ev.solver = None
            if seam.record:
                ev.var_shapes = tuple(tuple(v.shape) for v in problem.variables())
                ev.param_sizes = tuple(int(p.size) for p in problem.parameters())
            else:
                ev.var_shapes = ev.param_sizes = ()
            ev.kwargs = tuple(sorted(str(x) for x in kwargs))
            seam.events.append(ev)
            if not nested and k in seam.fail_at:
                ev.faulted = True
                seam.fired += 1
                raise cp.SolverError(f"[sim] injected solver failure at solve #{k}")
            if seam.cold:
                kwargs = dict(kwargs)
                kwargs["warm_start"] = False
            seam.depth += 1
            try:
                out = seam._orig(problem, *args, **kwargs)
            finally:
                seam.depth -= 1
            ev.status = problem.status
            ev.value = problem.value
            try:
                ev.solver = problem.solver_stats.solver_name
            except Exception:  # noqa: BLE001
                ev.solver = None
            if seam.on_solve is not None:
                seam.on_solve(problem, ev)
            return out

        cp.Problem.solve = solve
        return self

    def __exit__(self, *exc):
        self._cp.Problem.solve = self._orig
        return False


# ----------------------------------------------------------------------------
# RNG seam
# ----------------------------------------------------------------------------

class ScriptedGenerator(np.random.Generator):
    """A real Generator (PCG64) whose ``choice`` / ``dirichlet`` / ``random``
    can be overridden with plan-supplied *legal* values.

    script = {"choice": "first"|"last"|"min_p"|None,
              "dirichlet": "vertex"|"edge"|"tiny"|None}
    scipy.stats.dirichlet.rvs(random_state=rng) calls rng.dirichlet(alpha, size).
    """

    def __init__(self, seed, script=None):
        super().__init__(np.random.PCG64(seed))
        self.script = dict(script or {})
        self.calls = {"choice": 0, "dirichlet": 0}

    def choice(self, a, size=None, replace=True, p=None, axis=0, shuffle=True):
        mode = self.script.get("choice")
        self.calls["choice"] += 1
        if mode and p is not None and isinstance(a, (int, np.integer)):
            p = np.asarray(p, float)
            support = np.flatnonzero(p > 0)
            if mode == "first":
                pick = support[0]
            elif mode == "last":
                pick = support[-1]
            else:  # min_p : least likely simplex that still has positive mass
                pick = support[np.argmin(p[support])]
            n = 1 if size is None else int(np.prod(size))
            out = np.full(n, pick, dtype=np.int64)
            return out[0] if size is None else out.reshape(size)
        return super().choice(a, size=size, replace=replace, p=p, axis=axis, shuffle=shuffle)

    def dirichlet(self, alpha, size=None):
        mode = self.script.get("dirichlet")
        self.calls["dirichlet"] += 1
        base = super().dirichlet(alpha, size=size)
        if not mode:
            return base
        out = np.array(base, copy=True)
        flat = out.reshape(-1, out.shape[-1])
        k = flat.shape[-1]
        for i in range(flat.shape[0]):
            if mode == "vertex":
                v = np.zeros(k)
                v[i % k] = 1.0
            elif mode == "edge":
                v = np.zeros(k)
                v[i % k] = 0.5
                v[(i + 1) % k] = 0.5
            else:  # tiny: one weight 1e-300, rest renormalised
                v = flat[i].copy()
                v[i % k] = 1e-300
                v = v / v.sum()
            flat[i] = v
        return out


_ENTROPY = {"base": 0, "count": 0, "patched": False, "unseeded_calls": 0}


def own_entropy(k: int):
    """Put the last uncontrolled entropy source behind the simulator.

    * seeds the ambient numpy / stdlib RNGs from k (instead of OS entropy at process start);
    * replaces the name ``default_rng`` inside every /repo/dreye module by a wrapper that,
      when called *without* a seed, derives the generator from (k, call counter) instead of
      OS entropy.  Seeded calls go straight through.
    On a correct tree no dreye code path draws unseeded randomness when a seed is given, so
    this changes nothing; on a tree that does, the run stays exactly replayable (and two
    executions of the same request still differ, which is what the oracles look for).
    """
    k = int(k) % (2 ** 63)
    _ENTROPY["base"] = k
    _ENTROPY["count"] = 0
    np.random.seed(k % (2 ** 32))
    random.seed(k)
    if not _ENTROPY["patched"]:
        real = np.random.default_rng

        def default_rng(seed=None):
            if seed is None:
                _ENTROPY["count"] += 1
                _ENTROPY["unseeded_calls"] += 1
                return real([_ENTROPY["base"], _ENTROPY["count"]])
            return real(seed)

        for mod in list(sys.modules.values()):
            f = getattr(mod, "__file__", None)
            if f and os.path.realpath(f).startswith(REPO_DREYE) and \
                    getattr(mod, "default_rng", None) is real:
                mod.default_rng = default_rng
        np.random.default_rng = default_rng     # also explicit np.random.default_rng() calls
        _ENTROPY["patched"] = True


def ambient_perturb(k: int):
    """Disturb every ambient RNG a sloppy implementation might fall back on."""
    np.random.seed((k * 7919 + 13) % (2 ** 32))
    np.random.random(k % 5 + 1)
    random.seed(k * 104729 + 7)
    random.random()


# ----------------------------------------------------------------------------
# interruption seam
# ----------------------------------------------------------------------------

class SimInterrupt(BaseException):
    """Stands for KeyboardInterrupt / a cancelled cell: not an Exception."""


def _dreye_code_objects(prefix):
    """All code objects defined in modules under `prefix` (functions, methods,
    properties, nested functions / comprehensions / generators)."""
    import types
    seen, out = set(), []

    def add_code(co):
        if id(co) in seen or not co.co_filename.startswith(prefix):
            return
        seen.add(id(co))
        out.append(co)
        for c in co.co_consts:
            if isinstance(c, types.CodeType):
                add_code(c)

    def visit(obj, depth=0):
        if isinstance(obj, types.FunctionType):
            add_code(obj.__code__)
        elif isinstance(obj, (staticmethod, classmethod)):
            visit(obj.__func__, depth)
        elif isinstance(obj, property):
            for f in (obj.fget, obj.fset, obj.fdel):
                if f is not None:
                    visit(f, depth)
        elif isinstance(obj, type) and depth < 2:
            for v in list(vars(obj).values()):
                visit(v, depth + 1)

    for mod in list(sys.modules.values()):
        f = getattr(mod, "__file__", None)
        if f and os.path.realpath(f).startswith(prefix):
            for v in list(vars(mod).values()):
                visit(v)
    return out


class LineInterrupter:
    """Raise SimInterrupt at the n-th 'line' event inside /repo/dreye code.

    With n=None it only counts (used to learn how many crash points a call has).
    Third-party code is never instrumented, so cvxpy/qhull are never torn.
    Uses sys.monitoring (3.12+: per-code-object LINE events, no overhead on
    third-party frames); falls back to sys.settrace.
    """

    TOOL_ID = 4
    _codes = None

    def __init__(self, n=None, prefix=None):
        self.n = n
        self.prefix = prefix or REPO_DREYE
        self.count = 0
        self.fired_at = None
        self._mon = getattr(sys, "monitoring", None)

    # -- shared event handler ----------------------------------------------------
    def _on_line(self, filename, lineno):
        k = self.count
        self.count += 1
        if self.n is not None and k == self.n and self.fired_at is None:
            self.fired_at = (os.path.relpath(filename, self.prefix), lineno)
            raise SimInterrupt(f"line {self.fired_at}")

    # -- sys.monitoring ----------------------------------------------------------
    def _cb(self, code, lineno):
        self._on_line(code.co_filename, lineno)

    # -- sys.settrace fallback ---------------------------------------------------
    def _local(self, frame, event, arg):
        if event == "line":
            self._on_line(frame.f_code.co_filename, frame.f_lineno)
        return self._local

    def _global(self, frame, event, arg):
        if event == "call" and frame.f_code.co_filename.startswith(self.prefix):
            return self._local
        return None

    def __enter__(self):
        if self._mon is not None:
            mon = self._mon
            if LineInterrupter._codes is None:
                LineInterrupter._codes = _dreye_code_objects(self.prefix)
            mon.use_tool_id(self.TOOL_ID, "dreye-sim")
            mon.register_callback(self.TOOL_ID, mon.events.LINE, self._cb)
            for co in LineInterrupter._codes:
                mon.set_local_events(self.TOOL_ID, co, mon.events.LINE)
        else:
            self._prev = sys.gettrace()
            sys.settrace(self._global)
        return self

    def __exit__(self, *exc):
        if self._mon is not None:
            mon = self._mon
            for co in LineInterrupter._codes:
                mon.set_local_events(self.TOOL_ID, co, 0)
            mon.register_callback(self.TOOL_ID, mon.events.LINE, None)
            mon.free_tool_id(self.TOOL_ID)
        else:
            sys.settrace(self._prev)
        return False


class WarningsAsErrors:
    def __enter__(self):
        self._cm = warnings.catch_warnings()
        self._cm.__enter__()
        warnings.simplefilter("error")
        return self

    def __exit__(self, *exc):
        return self._cm.__exit__(*exc)


class ErrstateRaise:
    def __enter__(self):
        self._cm = np.errstate(all="raise")
        self._cm.__enter__()
        return self

    def __exit__(self, *exc):
        return self._cm.__exit__(*exc)
