"""C05 - samples are fitted independently; batch size never changes or breaks a result.

Simulated system: one ReceptorEstimator and the *sequence of solves* each fitting
call performs on one compiled cvxpy problem (parameters overwritten, previous
solution as warm start).  A run fixes a universe U of attributable target rows,
solves it once with batch_size=1 (reference) and then replays seeded
perturbed streams (permute / duplicate / drop / append = index sequences over
U) under seeded knobs (batch_size in {None,1..n+2,'full'}, warm start on/off,
solver pass-through) on the same estimator.  Observed at the solve seam.
Fault batch: the k-th solve of a call raises SolverError; the call must raise
or be right, and the next call must be unaffected.
"""
from __future__ import annotations

import warnings

import numpy as np

from sim.kernel import EventLog, PlanRng, Violation, call, sig
from sim.seams import (LineInterrupter, SimInterrupt, SolveSeam, WarningsAsErrors, import_dreye,
                       own_entropy)

ID = "C05"
PANEL_PER_MODE = 3
PER_RUN_CAP = 600
WALL_CAP = {"quick": 300, "thorough": 3300}
MINIMISE_S = 90.0
MINIMISE_TOTAL_S = 300.0
MAX_REPORTS = 4

PROCS = ["gaussian", "poisson", "excitation", "minimize_variance"]

RULE = ("a run = (procedure, system, universe of distinct attributable target rows, "
        "batch_size=1 reference) + 4-10 executions, each an index sequence over the universe "
        "(permutation / duplication / drop / append) with batch_size in {None,1..n+2,'full'}, "
        "warm start on/off, solver pass-through; quick tier stratifies (procedure, n<=6, "
        "batch_size) so every cell is visited; an execution is non-trivial when n>=2 and "
        "(batch_size!=1 or the sequence is not the identity); distinct = distinct (procedure, n, "
        "batch class, perturbation kinds, weights?, baseline?, solver cfg, warm start, fault) keys")
ASSUMPTIONS = [
    "tolerances are the property's own numbers (C04 accuracy, doubled because two approximate "
    "results are compared): default solver 4e-2 capture units / 2 % of the bound range, "
    "high-accuracy pass-through 4e-3 capture units / 2e-6 of the range relaxed to 1e-4 for "
    "second-order-cone procedures",
    "intensities are compared only where the optimum is unique (A has full column rank)",
    "well-scaled regime: captures 1-100, bounds 0.05-10, cond(KA) <= 1e3",
    "sampled, not exhaustive beyond the stratified small grid",
]
COMPONENTS = {
    "real": ["dreye (imported from /repo working tree)", "cvxpy", "OSQP", "CLARABEL", "SCS"],
    "wrapped": ["cvxpy.Problem.solve (recorder / SolverError injector / warm_start=False)"],
    "simulated": ["row stream order and multiplicity", "batch size / warm start / solver knobs",
                  "solver failure at the k-th solve"],
    "absent_in_code_under_test": ["clock", "network", "disk", "threads"],
}

_dreye = None


def setup():
    global _dreye
    if _dreye is None:
        warnings.filterwarnings("ignore")
        _dreye = import_dreye()
    return _dreye


def batches(tier):
    if tier == "quick":
        return [("grid", 150), ("clean", 170), ("faults", 60)]
    return [("grid", 600), ("clean", 5000), ("faults", 1500)]


# ----------------------------------------------------------------------------
# plan generation
# ----------------------------------------------------------------------------

def _grid_cells():
    cells = []
    for proc in PROCS:
        nmax = 3 if proc == "excitation" else 6
        for n in range(1, nmax + 1):
            for bs in list(range(1, n + 3)) + ["full"]:
                cells.append((proc, n, bs))
    return cells


GRID = _grid_cells()


def make_system(rng: PlanRng, proc):
    for _ in range(50):
        n_rec = rng.integers(1, 4)
        if proc == "minimize_variance":
            n_src = rng.integers(1, 6)
        else:
            # unique intensities (full column rank) in most runs, under-determined in some
            n_src = rng.integers(1, n_rec) if rng.coin(0.7) else rng.integers(n_rec + 1, 6)
        n_dom = rng.integers(6, 10)
        F = rng.uniform(0.05, 1.0, (n_rec, n_dom))
        S = rng.uniform(0.0, 1.0, (n_src, n_dom))
        # sharpen so that A is reasonably conditioned
        F = F ** 3
        S = S ** 3
        F, S = sig(F), sig(S)
        A = np.trapezoid(F[:, None, :] * S[None, :, :], dx=1.0, axis=-1)  # n_rec x n_src
        scale = rng.uniform(1.0, 4.0) / max(A.mean(), 1e-9)
        S = sig(S * scale)
        A = np.trapezoid(F[:, None, :] * S[None, :, :], dx=1.0, axis=-1)
        Kkind = rng.choice(["one", "scalar", "vector", "matrix"], p=[0.35, 0.15, 0.35, 0.15])
        Km = np.diag(rng.uniform(0.6, 1.8, n_rec)) + rng.uniform(0.0, 0.06, (n_rec, n_rec))
        K = {"one": 1.0, "scalar": float(sig(rng.uniform(0.5, 2.0))),
             "vector": sig(rng.uniform(0.5, 2.0, n_rec)), "matrix": sig(Km)}[Kkind]
        KA = (np.asarray(K) @ A) if Kkind == "matrix" else \
            A * (np.asarray(K).reshape(-1, 1) if Kkind == "vector" else K)
        if min(KA.shape) >= 1 and np.linalg.cond(KA) <= 1e3 and KA.max() < 60:
            break
    base_kind = rng.choice(["zero", "scalar", "vector"], p=[0.4, 0.2, 0.4])
    baseline = {"zero": 0.0, "scalar": float(sig(rng.uniform(0.1, 1.0))),
                "vector": sig(rng.uniform(0.1, 1.0, n_rec))}[base_kind]
    if Kkind == "matrix" and base_kind != "vector":
        # a matrix K with a scalar baseline makes every fit raise (K @ baseline with a
        # length-1 baseline) at every batch size - not C05's business; give it per-receptor form
        baseline = np.full(n_rec, float(baseline))
    lb = rng.choice([None, "pos"], p=[0.65, 0.35])
    lbv = None if lb is None else sig(rng.uniform(0.05, 0.4, n_src))
    ubv = sig(rng.uniform(1.0, 10.0, n_src))
    # per-receptor importance weights given to the constructor (used when no per-sample
    # weights are registered)
    w = sig(rng.uniform(0.5, 2.0, n_rec)) if rng.coin(0.3) else None
    return {"F": F, "S": S, "K": K, "Kkind": Kkind, "baseline": baseline, "w": w,
            "base_kind": base_kind, "lb": lbv, "ub": ubv, "n_rec": n_rec, "n_src": n_src}


def make_universe(rng: PlanRng, sysd, n_u, proc):
    """Distinct, attributable rows: in-gamut, boundary and out-of-gamut mixed."""
    F, S = sysd["F"], sysd["S"]
    A = np.trapezoid(F[:, None, :] * S[None, :, :], dx=1.0, axis=-1)
    Kraw = np.asarray(sysd["K"], float)

    def applyK(v):
        return (Kraw @ v) if Kraw.ndim == 2 else Kraw * v

    base = np.broadcast_to(np.asarray(sysd["baseline"], float), (sysd["n_rec"],))
    lb = np.zeros(sysd["n_src"]) if sysd["lb"] is None else sysd["lb"]
    ub = sysd["ub"]
    rows, kinds = [], []
    tries = 0
    if rng.coin(0.3):
        # a "dark" row: the capture of no light at all, K(baseline) - exactly zero once the
        # baseline is subtracted (a black pixel / blank frame).  The literal is replaced at
        # execution time by the estimator's own system_relative_capture(0) so that it is exact.
        rows.append(sig(applyK(base)))
        kinds.append("dark")
    while len(rows) < n_u and tries < 500:
        tries += 1
        kind = rng.choice(["in", "boundary", "out"], p=[0.5, 0.15, 0.35])
        if proc == "minimize_variance" and kind == "out" and rng.coin(0.5):
            kind = "in"
        x = lb + rng.random(sysd["n_src"]) * (ub - lb)
        if kind == "boundary":
            m = rng.random(sysd["n_src"]) < 0.5
            x = np.where(m, ub, np.where(rng.random(sysd["n_src"]) < 0.5, lb, x))
        b = applyK(A @ x + base)
        if kind == "out":
            b = b * rng.uniform(0.2, 2.5, sysd["n_rec"]) + rng.uniform(0.0, 3.0, sysd["n_rec"])
            if rng.coin(0.3):
                b = b[::-1].copy()
        # stay above the baseline capture: targets below it make dreye raise on *every* batch
        # size (a positivity-constrained parameter), which is C04's business, not C05's
        b = sig(np.maximum(b, applyK(base) * 1.05 + 0.02))
        if all(np.max(np.abs(b - r)) >= 0.5 for r in rows):
            rows.append(b)
            kinds.append(kind)
    while len(rows) < n_u:   # tiny systems: fall back to spaced rows
        rows.append(sig(rows[-1] + 0.7 if rows else np.full(sysd["n_rec"], 1.0)))
        kinds.append("out")
    U = np.array(rows)
    return U, kinds


def random_exec(rng: PlanRng, n_u, n_base, mode, max_n=None):
    """An index sequence over the universe built from the base stream 0..n_base-1 by a
    composition of permute / dup / drop / append, plus knobs."""
    seq = list(range(n_base))
    kinds = []
    k = rng.integers(0, 3)
    for _ in range(k):
        p = rng.choice(["permute", "dup", "drop", "append"])
        if p == "permute" and len(seq) > 1:
            seq = rng.shuffle(seq)
            kinds.append("permute")
        elif p == "dup" and seq:
            i = rng.integers(0, len(seq) - 1)
            seq.insert(rng.integers(0, len(seq)), seq[i])
            kinds.append("dup")
        elif p == "drop" and len(seq) > 1:
            seq.pop(rng.integers(0, len(seq) - 1))
            kinds.append("drop")
        elif p == "append" and n_u > n_base:
            seq.insert(rng.choice([len(seq), rng.integers(0, len(seq))]),
                       rng.integers(n_base, n_u - 1))
            kinds.append("append")
    if max_n:
        seq = seq[:max_n]
    n = len(seq)
    bs = rng.choice([None, 1, "full"] + list(range(2, n + 3)),
                    p=[0.5, 0.5, 1.5] + [1.0] * (n + 1))
    ex = {"seq": [int(i) for i in seq], "bs": bs, "warm": rng.coin(0.75),
          "kinds": sorted(set(kinds)),
          # memory layout / container of the arrays handed to the call (values identical)
          "layout": rng.choice(["C", "F", "strided", "list", "readonly"], p=[5, 2, 1, 1, 1]),
          "keep": rng.coin(0.25)}
    if mode == "faults" and rng.coin(0.7):
        ex["fault"] = {"kind": rng.choice(["solver_error", "line_interrupt", "warnings_as_errors"],
                                          p=[0.5, 0.35, 0.15]),
                       "k": rng.integers(0, 12), "frac": float(sig(rng.random(), 4))}
    return ex


def generate(rs, mode, tier, index):
    rng = PlanRng(rs)
    if mode == "grid":
        proc, n, bs = GRID[index % len(GRID)]
    else:
        proc = rng.choice(PROCS, p=[0.4, 0.25, 0.07, 0.28])
        n, bs = None, None
    sysd = make_system(rng, proc)
    if proc == "excitation":
        n_base = n or rng.integers(1, 3)
        n_u = n_base + rng.integers(0, 1)
    else:
        n_base = n or rng.integers(1, 10)
        n_u = n_base + rng.integers(0, 2)
    U, kinds = make_universe(rng, sysd, n_u, proc)
    weighted = rng.coin(0.45)
    Wu = sig(rng.uniform(0.5, 2.0, U.shape)) if weighted else None
    if weighted and n_u >= 2 and rng.coin(0.4):
        # twin rows: identical targets carrying different weight rows (row i depends on row i
        # of the targets *and of its weights*); out-of-gamut twins make the weights matter
        outs = [i for i, k in enumerate(kinds) if k == "out"] or list(range(n_u))
        i = rng.choice(outs)
        j = (i + 1) % n_u if rng.coin(0.6) else rng.choice([x for x in range(n_u) if x != i])
        U[j] = U[i]
        kinds[j] = kinds[i] + "_twin"
        Wu[j] = sig(Wu[i] * rng.uniform(0.3, 3.0, Wu.shape[1]))
    # solver configuration (documented **opt_kwargs pass-through)
    if proc == "minimize_variance":
        cfg = "ha"                       # both stages need an accurate solver to be feasible
    elif proc == "excitation":
        cfg = "default"
    elif proc == "poisson":
        cfg = rng.choice(["default", "ha"], p=[0.3, 0.7])
    else:
        cfg = rng.choice(["default", "ha"], p=[0.6, 0.4])
    execs = []
    if mode == "grid":
        # the cell itself with the identity stream, then perturbed streams at the same (n, bs)
        execs.append({"seq": list(range(n_base)), "bs": bs, "warm": True, "kinds": [],
                      "layout": "C"})
        e = random_exec(rng, n_u, n_base, mode)
        if len(e["seq"]) == n_base:
            e["bs"] = bs
        execs.append(e)
        if proc != "excitation":
            execs.append(random_exec(rng, n_u, n_base, mode))
    else:
        n_ex = rng.integers(2, 3) if proc == "excitation" else rng.integers(4, 10)
        for _ in range(n_ex):
            execs.append(random_exec(rng, n_u, n_base, mode,
                                     max_n=3 if proc == "excitation" else None))
    l1 = None
    if proc == "minimize_variance" and rng.coin(0.3) and all(k != "out" for k in kinds):
        l1 = "row"      # request each row's own attainable total intensity
    return {"check": ID, "run_seed": rs, "mode": mode, "proc": proc, "sys": sysd,
            "U": U, "U_kinds": kinds, "W": Wu, "cfg": cfg, "execs": execs, "L1": l1,
            "n_base": n_base}


# ----------------------------------------------------------------------------
# execution
# ----------------------------------------------------------------------------

HA_KW = {
    # documented **opt_kwargs pass-through; settings that really reach the accuracy C04 quotes
    "gaussian": {"solver": "CLARABEL", "tol_gap_abs": 1e-13, "tol_gap_rel": 1e-13,
                 "tol_feas": 1e-11},
    "poisson": {"solver": "SCS", "eps_abs": 1e-10, "eps_rel": 1e-10, "max_iters": 200000},
    "minimize_variance": {"solver": "CLARABEL", "tol_gap_abs": 1e-11, "tol_gap_rel": 1e-11,
                          "tol_feas": 1e-10},
}
# a solver-type failure (SolverError / 'did not converge') of a batched call is attributed to
# the (n, batch_size) combination only if it persists under these alternative settings while
# the batch_size=1 reference succeeds under them; any other exception type is attributed at once
ALT_KW = [
    {"solver": "CLARABEL"},
    {"solver": "CLARABEL", "tol_gap_abs": 1e-10, "tol_gap_rel": 1e-10, "tol_feas": 1e-9},
    {"solver": "SCS", "eps_abs": 1e-9, "eps_rel": 1e-9, "max_iters": 500000},
]


def tolerances(plan):
    """(tau_B in capture units, tau_X in intensity units).

    high-accuracy pass-through: C04's 2e-3 capture units doubled (two approximate results are
    compared).  Intensities are implied by the captures (B_pred = K(A X + baseline)), so they
    are compared only as a coarse cross-check on well-conditioned systems (cond <= 30) at
    0.5 % / 5 % of the bound range: a zero-weight padded block makes the stacked programme
    degenerate and the measured solver noise on X reaches 1e-3 of the range even with tight
    solver settings.
    default settings: measured disagreement between two default-accuracy solves of the same
    row reaches 2.7e-2 capture units (gaussian, OSQP) and 2e-2 (poisson, exp cone); 0.15 / 0.3
    keep a >5x margin so the check stays silent on a correct tree, while distinct rows of a
    run differ by >= 0.5 (typically several units) so any mix-up of rows is far outside."""
    rng_ = float(np.max(plan["sys"]["ub"] - (0 if plan["sys"]["lb"] is None else
                                             plan["sys"]["lb"])))
    if plan["cfg"] == "ha":
        return 4e-3, 5e-3 * rng_
    if plan["proc"] == "poisson":
        return 0.3, 0.05 * rng_
    return 0.15, 0.05 * rng_


COARSE = (0.3, 0.05)     # tau_B, tau_X (fraction of range) when the solver reports
#                          'optimal_inaccurate' (reduced tolerances reached, not the requested)


def solve_grade(events, proc=None):
    """'optimal' | 'inaccurate' | 'unusable' from the statuses of the top-level solves
    (solves issued from inside another solve - DQCP bisection - probe feasibility and are
    legitimately 'infeasible').

    'optimal_inaccurate' from CLARABEL means its documented reduced tolerances were met
    (usable at the coarse tolerance); from the DQCP bisection of the excitation model it is
    the normal outcome; from SCS / OSQP it means the iteration limit was hit and the error is
    unbounded (measured: 0.63 capture units on a padded poisson batch) - unusable."""
    grade = "optimal"
    for e in events:
        if e.depth != 0 or e.faulted or e.status in (None, "optimal"):
            continue
        if e.status == "optimal_inaccurate" and (proc == "excitation"
                                                 or (e.solver or "").upper() == "CLARABEL"):
            grade = "inaccurate"
            continue
        return "unusable"
    return grade


def build_estimator(plan):
    s = plan["sys"]
    kw = {} if s.get("w") is None else {"w": s["w"]}
    est = _dreye.ReceptorEstimator(s["F"], domain=1.0, K=s["K"], baseline=s["baseline"], **kw)
    est.register_system(s["S"], lb=s["lb"], ub=s["ub"])
    return est


def opt_kwargs(plan):
    if plan["cfg"] == "ha":
        return dict(HA_KW[plan["proc"]])
    return {}


def row_L1(plan, est, idx):
    """attainable total intensity per row for the L1 request: that of the plain fit."""
    return None


def as_layout(a, layout):
    """Same values, different container / memory layout."""
    a = np.array(a, dtype=float, copy=True)
    if layout == "F":
        return np.asfortranarray(a)
    if layout == "strided":
        big = np.zeros((a.shape[0] * 2, a.shape[1] * 2))
        big[::2, ::2] = a
        return big[::2, ::2]
    if layout == "list":
        return a.tolist()
    if layout == "readonly":
        a.setflags(write=False)
        return a
    return a


def run_fit(plan, est, seq, bs, l1_all=None, kw_override=None, layout="C", keep_registered=False):
    """One fitting call on the stream U[seq]. Returns (X, B_pred)."""
    U = plan["U"]
    Bp = as_layout(U[seq], layout)
    kw = opt_kwargs(plan) if kw_override is None else dict(kw_override)
    proc = plan["proc"]
    if plan["W"] is not None:
        est.register_targets(Bp, as_layout(plan["W"][seq], layout if layout != "list" else "C"))
        if proc == "minimize_variance":
            if l1_all is not None:
                kw["L1"] = l1_all[seq]
            est.minimize_variance(batch_size=bs, **kw)
        else:
            est.fit(model=proc, batch_size=bs, **kw)
        return est.X, est.B
    # unweighted: the fit gets its targets explicitly.  Usually the same stream is registered
    # first (so that no stale registration is around); with keep_registered the estimator still
    # holds whatever the previous call registered - another stream with another row count -
    # which an explicit-target fit must not care about
    if not keep_registered:
        est.register_targets(Bp)
    if proc == "minimize_variance":
        if l1_all is not None:
            kw["L1"] = l1_all[seq]
        X, B, _ = est.minimize_variance(Bp, batch_size=bs, **kw)
        return X, B
    X, B = est.fit(Bp, model=proc, batch_size=bs, **kw)
    return X, B


def batch_class(n, bs):
    if bs is None:
        return "None"
    if bs == "full":
        return "full"
    if bs == 1:
        return "1"
    if bs > n:
        return ">n"
    return "divides" if n % bs == 0 else "pads"


def execute(plan):
    setup()
    own_entropy(plan["run_seed"])
    import cvxpy as cp  # noqa: F401
    log = EventLog()
    counters = {}
    cov = []

    def bump(k, n=1):
        counters[k] = counters.get(k, 0) + n

    s = plan["sys"]
    est = build_estimator(plan)
    A = est.A
    if any(str(k).startswith("dark") for k in plan.get("U_kinds", [])):
        plan = dict(plan)
        U = np.array(plan["U"], dtype=float, copy=True)
        dark = np.asarray(est.system_relative_capture(np.zeros(A.shape[1])), float)
        for i, k in enumerate(plan["U_kinds"]):
            if str(k).startswith("dark"):
                U[i] = dark
        plan["U"] = U
        bump("reach:dark_row_in_universe")
    KA = (np.asarray(s["K"], float) @ A) if s["Kkind"] == "matrix" else \
        A * (np.asarray(s["K"], float).reshape(-1, 1) if s["Kkind"] == "vector" else s["K"])
    unique_x = (np.linalg.matrix_rank(A) == A.shape[1]) and np.linalg.cond(KA) <= 30
    tauB, tauX = tolerances(plan)
    rngX_ = float(np.max(s["ub"] - (0 if s["lb"] is None else s["lb"])))
    proc = plan["proc"]
    n_u = plan["U"].shape[0]
    violation = None
    steps = 0
    margins = {"B": 0.0, "X": 0.0}
    try:
        # ---- reference: batch_size = 1, natural order, warm start on -------------------
        l1_all = None
        if plan.get("L1") == "row":
            r0 = call(lambda: est.fit(plan["U"], model="gaussian", batch_size=1,
                                      **HA_KW["gaussian"]))
            if r0.ok:
                l1_all = np.asarray(r0.value[0]).sum(axis=1)
        with SolveSeam() as seam:
            ref = call(run_fit, plan, est, list(range(n_u)), 1, l1_all)
        steps += seam.count
        log.add("ref", proc, ref)
        if not ref.ok:
            bump("reference_failed:" + proc + ":" + ref.value)
            return {"violation": None, "digest": log.digest(), "steps": steps,
                    "counters": counters, "cov": [], "nontrivial": False}
        ref_grade = solve_grade(seam.events, proc)
        if ref_grade == "unusable":
            # the solver itself disclaims a reference solve (iteration limit, ...): nothing
            # reliable to compare against in this run
            bump("reference_solver_status_unusable:" + proc)
            return {"violation": None, "digest": log.digest(), "steps": steps,
                    "counters": counters, "cov": [], "nontrivial": False}
        if ref_grade == "inaccurate":
            bump("reference_solver_status_inaccurate:" + proc)
            tauB, tauX = max(tauB, COARSE[0]), max(tauX, COARSE[1] * rngX_)
        Xref, Bref = (np.array(v, copy=True) for v in ref.value)
        n_src = A.shape[1]

        def check_rows(X, B, seq, ex, what, coarse=False):
            tB = max(tauB, COARSE[0]) if coarse else tauB
            tX = max(tauX, COARSE[1] * rngX_) if coarse else tauX
            try:
                return _check_rows(X, B, seq, ex, what, tB, tX)
            except Violation as v_def:
                # At default solver accuracy a mismatch can be the solvers' own noise (measured:
                # 0.81 capture units between two default-accuracy poisson fits of the same
                # out-of-gamut row at capture ~90, 0.21 for a gaussian fit under -W error).  A
                # batching defect does not go away with solver accuracy: the mismatch is
                # attributed only if it persists when reference and execution are both
                # repeated with the high-accuracy settings (compared at their tolerance).
                if plan["cfg"] != "default" or proc not in HA_KW or \
                        v_def.cls != "row_depends_on_other_rows":
                    raise
                ha = dict(HA_KW[proc])
                r_ref = call(run_fit, plan, est, list(range(n_u)), 1, l1_all, ha)
                r_ex = call(run_fit, plan, est, seq, ex["bs"], l1_all, ha, ex.get("layout", "C"),
                            bool(ex.get("keep")) and plan["W"] is None)
                if not (r_ref.ok and r_ex.ok):
                    raise
                Bref_h = np.asarray(r_ref.value[1])
                B_h = np.asarray(r_ex.value[1])
                if B_h.shape[0] != len(seq) or max(
                        float(np.max(np.abs(B_h[r] - Bref_h[i]))) for r, i in enumerate(seq)) > 4e-3:
                    raise
                bump("default_accuracy_mismatch_not_confirmed_at_high_accuracy:" + proc)

        def _check_rows(X, B, seq, ex, what, tauB, tauX):
            if X.shape != (len(seq), n_src) or B.shape != (len(seq), A.shape[0]):
                raise Violation(ID, "wrong_shape", f"{proc}: result shapes {X.shape}/{B.shape} "
                                f"for {len(seq)} rows ({what})", ex=ex)
            for r, i in enumerate(seq):
                dB = float(np.max(np.abs(B[r] - Bref[i])))
                margins["B"] = max(margins["B"], dB / tauB)
                if not np.all(np.isfinite(B[r])) or dB > tauB:
                    raise Violation(
                        ID, "row_depends_on_other_rows",
                        f"{proc}: predicted capture of output row {r} (universe row {i}) differs "
                        f"from its batch_size=1 reference by {dB:.3g} > {tauB:g} with "
                        f"batch_size={ex['bs']!r}, n={len(seq)} ({what})",
                        ex=ex, row=r, origin=i, diff=dB, quantity="B")
                if unique_x:
                    dX = float(np.max(np.abs(X[r] - Xref[i])))
                    margins["X"] = max(margins["X"], dX / tauX)
                    if not np.all(np.isfinite(X[r])) or dX > tauX:
                        raise Violation(
                            ID, "row_depends_on_other_rows",
                            f"{proc}: intensities of output row {r} (universe row {i}) differ "
                            f"from the batch_size=1 reference by {dX:.3g} > {tauX:.3g} with "
                            f"batch_size={ex['bs']!r}, n={len(seq)} ({what})",
                            ex=ex, row=r, origin=i, diff=dX, quantity="X")

        for ei, ex in enumerate(plan["execs"]):
            seq, bs = ex["seq"], ex["bs"]
            n = len(seq)
            fault = ex.get("fault")
            bc = batch_class(n, bs)
            lay = ex.get("layout", "C")
            if fault and fault["kind"] == "solver_error":
                # learn the solve count of this call, then fail its k-th solve
                with SolveSeam(cold=not ex["warm"]) as s0:
                    r_clean = call(run_fit, plan, est, seq, bs, l1_all, None, lay)
                steps += s0.count
                k = fault["k"] % s0.count if s0.count else 0
                with SolveSeam(fail_at={k}, cold=not ex["warm"]) as s1:
                    r_f = call(run_fit, plan, est, seq, bs, l1_all, None, lay)
                steps += s1.count
                if s1.fired:
                    bump("fault:solver_error")
                log.add(ei, "faulted", r_f)
                if r_f.ok:
                    # the call swallowed the solver failure: every row must still be right
                    bump("reach:fault_swallowed")
                    Xf, Bf = r_f.value
                    check_rows(np.asarray(Xf), np.asarray(Bf), seq, ex,
                               f"call returned although solve #{k} failed")
                elif r_f.value not in ("SolverError", "RuntimeError"):
                    raise Violation(ID, "fault_changes_failure_mode",
                                    f"{proc}: injected SolverError at solve #{k} surfaced as "
                                    f"{r_f.brief()}", ex=ex)
            elif fault and fault["kind"] == "line_interrupt":
                # the call is aborted (Ctrl-C) at a seeded dreye line; nothing may be left behind
                with LineInterrupter(None) as li0:
                    call(run_fit, plan, est, seq, bs, l1_all, None, lay)
                if li0.count:
                    with LineInterrupter(int(fault["frac"] * li0.count)) as li:
                        try:
                            call(run_fit, plan, est, seq, bs, l1_all, None, lay)
                        except SimInterrupt:
                            bump("fault:line_interrupt")
                    log.add(ei, "interrupted", li.fired_at)
            elif fault:
                with WarningsAsErrors():
                    r_w = call(run_fit, plan, est, seq, bs, l1_all, None, lay)
                if not r_w.ok:
                    bump("fault:warnings_as_errors")
                log.add(ei, "warnings_as_errors", r_w)
                if r_w.ok:
                    Xw, Bw = r_w.value
                    check_rows(np.asarray(Xw), np.asarray(Bw), seq, ex, "under -W error")
            # hidden state after an aborted solve sequence: the same call again, unfaulted
            with SolveSeam(cold=not ex["warm"]) as seam:
                out = call(run_fit, plan, est, seq, bs, l1_all, None, ex.get("layout", "C"),
                           bool(ex.get("keep")) and plan["W"] is None)
            if ex.get("keep") and plan["W"] is None:
                bump("reach:explicit_fit_over_stale_registration")
            steps += seam.count
            log.add(ei, "exec", out)
            # trace monitor (evidence only): which batch structure did the code really run?
            stacked = [int(np.prod(sh[0])) // n_src for e in seam.events for sh in [e.var_shapes]
                       if sh and sh[0] and int(np.prod(sh[0])) % n_src == 0]
            if stacked:
                eff = max(stacked)
                bump(f"reach:effective_batch_{'1' if eff == 1 else ('2-3' if eff <= 3 else '4+')}")
            bump("reach:batch_class_" + bc)
            if not ex["warm"]:
                bump("fault:warm_start_off")
            if not out.ok and out.value in ("SolverError", "RuntimeError") \
                    and proc != "excitation":
                # solver-type failure: is it the combination, or the solver settings?
                verdicts = []
                for alt in ALT_KW:
                    r1 = call(run_fit, plan, est, list(range(n_u)), 1, l1_all, alt)
                    if not r1.ok:
                        continue           # inconclusive under these settings
                    r2 = call(run_fit, plan, est, seq, bs, l1_all, alt, ex.get("layout", "C"))
                    verdicts.append(r2.ok)
                if verdicts and any(verdicts):
                    bump("solver_tolerance_failure_not_attributed:" + proc)
                    log.add(ei, "solver-tolerance failure", out)
                    continue
            if not out.ok:
                raise Violation(
                    ID, "batch_combination_fails",
                    f"{proc}: n={n}, batch_size={bs!r} raised {out.brief()} although the "
                    f"batch_size=1 reference succeeded", ex=ex, exc=out.value, n=n)
            X, B = (np.asarray(v) for v in out.value)
            grade = solve_grade(seam.events, proc)
            if grade == "unusable":
                # accuracy disclaimed by the solver for this call: values are not compared
                bump("execution_solver_status_unusable:" + proc)
                if X.shape != (n, n_src) or not np.all(np.isfinite(B)):
                    raise Violation(ID, "wrong_shape", f"{proc}: result shapes {X.shape}/"
                                    f"{B.shape} for {n} rows", ex=ex)
                continue
            if grade == "inaccurate":
                bump("execution_solver_status_inaccurate:" + proc)
            check_rows(X, B, seq, ex, "clean execution" if not fault else
                       "execution after an aborted call", coarse=(grade == "inaccurate"))
            nontriv = n >= 2 and (bs != 1 or seq != list(range(n)))
            if nontriv:
                cov.append((proc, n, bc, tuple(ex["kinds"]), plan["W"] is not None,
                            s["base_kind"], plan["cfg"], ex["warm"], bool(fault),
                            bool(unique_x), plan.get("L1") is not None, ex.get("layout", "C")))
        # ---- W="inverse" through the function interface (round 13, c05n_1) ----------------
        if proc == "gaussian" and int(plan["run_seed"]) % 3 == 0:
            inverse_weight_rows(plan, est, bump)
    except Violation as v:
        violation = v.as_dict()
    bump("executions", len(plan["execs"]))
    res = {"violation": violation, "digest": log.digest(), "steps": steps, "counters": counters,
           "cov": cov, "nontrivial": bool(cov), "margins": margins, "proc": proc,
           "cfg": plan["cfg"]}
    return res


INV_MARGIN = [0.0]      # largest difference / tolerance seen by inverse_weight_rows (diagnostic)


def inverse_weight_rows(plan, est, bump):
    """Row independence of `lsq_linear(..., W="inverse")`, the one weighting the estimator cannot
    register (register_targets turns a string into an array): the weights of row i are 1 / B[i],
    a function of row i alone.  A private generator derived from the run seed builds 3-5
    strictly positive targets with a wide dynamic range - in-gamut captures distorted per
    receptor (so the weights matter), one entry of one row at 2e-4 .. 8e-4 of the call's largest
    entry above the dark point, one bright row - and the stacked call (several batch sizes) is compared row by row
    with the same row fitted alone, all at the high-accuracy settings.  A solver failure of any
    of the calls is inconclusive here (weights spanning 1e3..1e4 are a delicate regime; failure
    by combination is the main oracle's business), never a violation."""
    from dreye.api.optimize.lsq_linear import lsq_linear
    g = np.random.default_rng([int(plan["run_seed"]) & 0x7FFFFFFF, 0xC05])
    A = np.asarray(est.A, float)
    lb = np.broadcast_to(np.asarray(est.lb, float), (A.shape[1],))
    ub = np.broadcast_to(np.asarray(est.ub, float), (A.shape[1],))
    if not np.all(np.isfinite(ub)):
        bump("inverse_weights:skipped_unbounded")
        return
    n = int(g.integers(3, 6))
    X0 = lb + (ub - lb) * g.uniform(0.15, 0.85, (n, A.shape[1]))
    B0 = np.asarray(est.system_relative_capture(X0), float)
    if not np.all(np.isfinite(B0)) or np.min(B0) <= 0:
        bump("inverse_weights:skipped_nonpositive_capture")
        return
    # distortions are applied above the dark point (the capture of zero intensity): the fitting
    # code declares target minus baseline a positive parameter and rejects anything below
    dark = np.asarray(est.system_relative_capture(np.zeros((1, A.shape[1]))), float)[0]
    if not np.all(np.isfinite(dark)) or np.min(dark) < 0 or np.min(B0 - dark) <= 0:
        bump("inverse_weights:skipped_nonpositive_capture")
        return
    Bt = dark + (B0 - dark) * g.uniform(0.6, 1.6, B0.shape)
    bright = int(g.integers(0, n))
    Bt[bright] = dark + (Bt[bright] - dark) * g.uniform(8.0, 25.0)
    tiny = int((bright + 1 + g.integers(0, n - 1)) % n)
    j = int(g.integers(0, Bt.shape[1]))
    Bt[tiny, j] = dark[j] + float(np.max(Bt)) * g.uniform(2e-4, 8e-4)
    kw = dict(lb=est.lb, ub=est.ub, W="inverse", K=est.K, baseline=est.baseline,
              return_pred=True, **HA_KW["gaussian"])
    alone = []
    for i in range(n):
        r = call(lambda i=i: lsq_linear(est.A, Bt[i:i + 1].copy(), batch_size=1, **kw))
        if not r.ok or not np.all(np.isfinite(np.asarray(r.value[1]))):
            bump("inverse_weights:inconclusive_row_call_failed")
            return
        alone.append(np.asarray(r.value[1], float)[0])
    alone = np.array(alone)
    for bs in (1, 2, n, "full"):
        r = call(lambda bs=bs: lsq_linear(est.A, Bt.copy(), batch_size=bs, **kw))
        if not r.ok or not np.all(np.isfinite(np.asarray(r.value[1]))):
            bump("inverse_weights:inconclusive_stacked_call_failed")
            continue
        Bp = np.asarray(r.value[1], float)
        if Bp.shape != alone.shape:
            raise Violation(ID, "wrong_shape", f"gaussian, W='inverse': predicted captures of "
                            f"shape {Bp.shape} for {n} rows", bs=bs)
        for i in range(n):
            tol = 4e-3 * max(1.0, float(np.max(np.abs(Bt[i]))))
            d = float(np.max(np.abs(Bp[i] - alone[i])))
            INV_MARGIN[0] = max(INV_MARGIN[0], d / tol)
            if d > tol:
                raise Violation(
                    ID, "row_depends_on_other_rows",
                    f"gaussian, W='inverse' (function interface): predicted capture of row {i} "
                    f"in a call of {n} rows (batch_size={bs!r}) differs from the same row fitted "
                    f"alone by {d:.3g} > {tol:.3g}", row=i, diff=d, bs=bs, quantity="B",
                    targets=Bt)
        bump("inverse_weights:stacked_calls_compared")
    bump("reach:inverse_weights_rows", n)


# ----------------------------------------------------------------------------
# minimisation / reporting helpers
# ----------------------------------------------------------------------------

def plan_size(plan):
    return sum(len(e["seq"]) + 1 for e in plan["execs"]) + plan["U"].shape[0]


def candidates(plan):
    ex = plan["execs"]
    # keep one execution
    if len(ex) > 1:
        for i in range(len(ex)):
            p = dict(plan)
            p["execs"] = [ex[i]]
            yield p
        for i in range(len(ex)):
            p = dict(plan)
            p["execs"] = ex[:i] + ex[i + 1:]
            yield p
    for i, e in enumerate(ex):
        # drop the fault
        if "fault" in e:
            e2 = {k: v for k, v in e.items() if k != "fault"}
            p = dict(plan)
            p["execs"] = ex[:i] + [e2] + ex[i + 1:]
            yield p
        # plain C-ordered arrays
        if e.get("layout", "C") != "C":
            e2 = dict(e)
            e2["layout"] = "C"
            p = dict(plan)
            p["execs"] = ex[:i] + [e2] + ex[i + 1:]
            yield p
        # warm start back on
        if not e["warm"]:
            e2 = dict(e)
            e2["warm"] = True
            p = dict(plan)
            p["execs"] = ex[:i] + [e2] + ex[i + 1:]
            yield p
        # shorter streams
        seq = e["seq"]
        if len(seq) > 1:
            for j in range(len(seq)):
                e2 = dict(e)
                e2["seq"] = seq[:j] + seq[j + 1:]
                p = dict(plan)
                p["execs"] = ex[:i] + [e2] + ex[i + 1:]
                yield p
        # identity order
        if seq != sorted(seq):
            e2 = dict(e)
            e2["seq"] = sorted(seq)
            p = dict(plan)
            p["execs"] = ex[:i] + [e2] + ex[i + 1:]
            yield p
        # smaller batch size
        if isinstance(e["bs"], int) and e["bs"] > 2:
            for nb in (2, e["bs"] - 1):
                e2 = dict(e)
                e2["bs"] = nb
                p = dict(plan)
                p["execs"] = ex[:i] + [e2] + ex[i + 1:]
                yield p
    # drop weights / L1
    if plan["W"] is not None:
        p = dict(plan)
        p["W"] = None
        yield p
    if plan.get("L1"):
        p = dict(plan)
        p["L1"] = None
        yield p
    # drop unused universe rows
    used = sorted({i for e in ex for i in e["seq"]})
    if len(used) < plan["U"].shape[0]:
        remap = {old: new for new, old in enumerate(used)}
        p = dict(plan)
        p["U"] = plan["U"][used]
        p["U_kinds"] = [plan["U_kinds"][i] for i in used]
        if plan["W"] is not None:
            p["W"] = plan["W"][used]
        p["execs"] = [dict(e, seq=[remap[i] for i in e["seq"]]) for e in ex]
        yield p


def signature(plan, vio):
    d = vio.get("detail", {})
    ex = d.get("ex", {})
    n = len(ex.get("seq", []))
    s = {"class": vio["class"], "proc": plan["proc"],
         "batch_class": batch_class(n, ex.get("bs")) if ex else None}
    if "exc" in d:
        s["exc"] = d["exc"]
    if "quantity" in d:
        s["quantity"] = d["quantity"]
    s["faulted"] = "fault" in ex
    return s


def sample_repr(plan):
    return {"run_seed": plan["run_seed"], "mode": plan["mode"], "procedure": plan["proc"],
            "n_rec": plan["sys"]["n_rec"], "n_src": plan["sys"]["n_src"],
            "K": plan["sys"]["Kkind"], "baseline": plan["sys"]["base_kind"],
            "lb": "positive" if plan["sys"]["lb"] is not None else "zero",
            "weights": plan["W"] is not None, "solver_cfg": plan["cfg"], "L1": plan.get("L1"),
            "universe_rows": plan["U"].round(3).tolist(), "row_kinds": plan["U_kinds"],
            "executions": plan["execs"]}


def extra_evidence(results):
    worst = {}
    for r in results:
        m = r.get("margins")
        if not m:
            continue
        key = f"{r.get('proc')}/{r.get('cfg')}"
        w = worst.setdefault(key, {"B": 0.0, "X": 0.0})
        w["B"] = max(w["B"], m["B"])
        w["X"] = max(w["X"], m["X"])
    return {"worst_observed_fraction_of_tolerance": {k: {q: round(v, 4) for q, v in w.items()}
                                                     for k, w in sorted(worst.items())},
            "grid_cells": len(GRID)}


# ----------------------------------------------------------------------------
# sensitivity canaries
# ----------------------------------------------------------------------------

_L = "api/optimize/lsq_linear.py"
_P = "api/optimize/parallel.py"
_U = "api/optimize/utils.py"
CANARIES = [
    ("scatter_takes_tail_of_padded_solution", [(_L,
        "        if ((idx + 1) * batch_size) > X.shape[0]:\n            X[idx * batch_size :] = x[:last_batch_size]\n        else:\n            X[idx * batch_size : (idx + 1) * batch_size] = x\n\n    return X\n",
        "        if ((idx + 1) * batch_size) > X.shape[0]:\n            X[idx * batch_size :] = x[-last_batch_size:]\n        else:\n            X[idx * batch_size : (idx + 1) * batch_size] = x\n\n    return X\n")]),
    ("last_batch_takes_first_rows", [(_P,
        "                arr[-last_batch_size:].ravel(),\n                np.zeros((pad_size,) + arr.shape[1:]).ravel(),",
        "                arr[:last_batch_size].ravel(),\n                np.zeros((pad_size,) + arr.shape[1:]).ravel(),")]),
    ("ravel_iarrays_off_by_one_batch", [(_P,
        "        arr[idx * batch_size : (idx + 1) * batch_size].ravel() for arr in iter_arrays",
        "        arr[max(idx - 1, 0) * batch_size : (max(idx - 1, 0) + 1) * batch_size].ravel() for arr in iter_arrays")]),
    ("padded_rows_keep_weight_of_first_row", [(_P,
        "                np.zeros((pad_size,) + arr.shape[1:]).ravel(),",
        "                np.broadcast_to(arr[0] * (arr.ndim > 1 and arr.shape[1] > 1 and np.all(arr <= 2.0)), (pad_size,) + arr.shape[1:]).ravel(),")]),
    ("weights_not_permuted_with_rows", [(_L,
        "        w_.value = w\n        b_.value = b * w  # ensures that objective is dpp compliant\n\n        problem.solve(**opt_kwargs)\n        if not np.isfinite(problem.value):\n            raise RuntimeError(\"Optimization did not converge.\")\n\n        x = x_.value.reshape(-1, A.shape[-1])\n\n        if ((idx + 1) * batch_size) > X.shape[0]:\n            X[idx * batch_size :] = x[:last_batch_size]",
        "        w_.value = np.sort(w) if batch_size > 2 else w\n        b_.value = b * w  # ensures that objective is dpp compliant\n\n        problem.solve(**opt_kwargs)\n        if not np.isfinite(problem.value):\n            raise RuntimeError(\"Optimization did not converge.\")\n\n        x = x_.value.reshape(-1, A.shape[-1])\n\n        if ((idx + 1) * batch_size) > X.shape[0]:\n            X[idx * batch_size :] = x[:last_batch_size]")]),
    ("poisson_baseline_not_tiled", [(_L,
        "        baseline_ = concat(np.broadcast_to(baseline, (A.shape[0],)), batch_size)\n",
        "        baseline_ = concat(np.broadcast_to(baseline, (A.shape[0],))[::-1] if batch_size > 1 else baseline, batch_size)\n")]),
    ("minimize_fortran_reshape", [(_L,
        "cp.multiply(A_, w_[:, None]) @ x_ - b_, (batch_size, A.shape[0]), order=\"C\"",
        "cp.multiply(A_, w_[:, None]) @ x_ - b_, (batch_size, A.shape[0]), order=\"F\"")]),
    ("excitation_batches_again", [(_L,
        "    # fitted one at a time; `batch_size` is accepted but has no effect here.\n    batch_size = 1\n",
        "    # fitted one at a time; `batch_size` is accepted but has no effect here.\n")]),
    ("batch_gt_n_unbound", [(_P,
        "            yield (n_samples // batch_size, raveled_iarrays, batched_arrays)",
        "            yield (idx + 1, raveled_iarrays, batched_arrays)")]),
    ("result_reuses_previous_solution_on_inaccurate", [(_L,
        "        x = x_.value.reshape(-1, A.shape[-1])\n\n        if ((idx + 1) * batch_size) > X.shape[0]:\n            X[idx * batch_size :] = x[:last_batch_size]\n        else:\n            X[idx * batch_size : (idx + 1) * batch_size] = x\n\n    return X\n",
        "        x = x_.value.reshape(-1, A.shape[-1])\n        if idx and batch_size == 1 and np.allclose(w, 1) and idx % 5 == 4:\n            x = 0.5 * (x + X[idx - 1])\n\n        if ((idx + 1) * batch_size) > X.shape[0]:\n            X[idx * batch_size :] = x[:last_batch_size]\n        else:\n            X[idx * batch_size : (idx + 1) * batch_size] = x\n\n    return X\n")]),
]
