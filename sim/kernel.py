"""Simulator kernel: seeds, plans, event log, digests, canonicalisation.

One integer (VERIF_SEED) decides everything.  Run *i* of check *c* derives
``run_seed = blake2b(f"{VERIF_SEED}/{c}/{i}")``; from it a generator builds a
complete JSON *plan*; execution of a plan draws no randomness and reads no
clock.  The replay file is the plan.
"""
from __future__ import annotations

import hashlib
import json
import math
import os

# single-threaded numerics: must be set before numpy is imported anywhere
for _v in ("OMP_NUM_THREADS", "OPENBLAS_NUM_THREADS", "MKL_NUM_THREADS",
           "NUMEXPR_NUM_THREADS", "VECLIB_MAXIMUM_THREADS"):
    os.environ.setdefault(_v, "1")
os.environ.setdefault("MPLBACKEND", "Agg")

import numpy as np  # noqa: E402


# ----------------------------------------------------------------------------
# seeds
# ----------------------------------------------------------------------------

def verif_seed() -> int:
    try:
        return int(os.environ.get("VERIF_SEED", "0"))
    except ValueError:
        return 0


def run_seed(vseed: int, check: str, index: int, stream: str = "") -> int:
    h = hashlib.blake2b(f"{vseed}/{check}/{stream}/{index}".encode(), digest_size=8)
    return int.from_bytes(h.digest(), "big")


class PlanRng:
    """The only PRNG a plan generator may use (PCG64 seeded from run_seed)."""

    def __init__(self, seed: int):
        self.seed = seed
        self.g = np.random.Generator(np.random.PCG64(seed))

    def integers(self, lo, hi=None):
        """inclusive on both ends when hi given: integers(a,b) in [a,b]."""
        if hi is None:
            return int(self.g.integers(0, lo))
        return int(self.g.integers(lo, hi + 1))

    def choice(self, seq, p=None):
        seq = list(seq)
        if p is not None:
            p = np.asarray(p, float)
            p = p / p.sum()
        return seq[int(self.g.choice(len(seq), p=p))]

    def coin(self, p=0.5) -> bool:
        return bool(self.g.random() < p)

    def uniform(self, lo, hi, size=None):
        return self.g.uniform(lo, hi, size=size)

    def random(self, size=None):
        return self.g.random(size)

    def shuffle(self, seq):
        seq = list(seq)
        idx = self.g.permutation(len(seq))
        return [seq[int(i)] for i in idx]

    def sample(self, seq, k):
        seq = list(seq)
        idx = self.g.permutation(len(seq))[:k]
        return [seq[int(i)] for i in idx]


# ----------------------------------------------------------------------------
# literal payloads (exact in JSON)
# ----------------------------------------------------------------------------

def sig(x, digits: int = 6):
    """Round to `digits` significant digits so the JSON literal is exact."""
    a = np.asarray(x, dtype=float)
    out = np.empty(a.shape, dtype=float)      # C-contiguous whatever the layout of `a`
    flat_in = a.ravel()
    flat_out = out.reshape(-1)                # a view (ravel of a non-contiguous array copies)
    for i, v in enumerate(flat_in):
        if v == 0 or not math.isfinite(v):
            flat_out[i] = v
        else:
            flat_out[i] = float(f"{v:.{digits - 1}e}")
    return out.reshape(a.shape)


def to_jsonable(x):
    if isinstance(x, np.ndarray):
        return {"__nd__": x.tolist(), "dtype": str(x.dtype)}
    if isinstance(x, (np.floating,)):
        return float(x)
    if isinstance(x, (np.integer,)):
        return int(x)
    if isinstance(x, (np.bool_,)):
        return bool(x)
    if isinstance(x, dict):
        return {k: to_jsonable(v) for k, v in x.items()}
    if isinstance(x, (list, tuple)):
        return [to_jsonable(v) for v in x]
    if isinstance(x, float) and not math.isfinite(x):
        return {"__float__": repr(x)}
    return x


def from_jsonable(x):
    if isinstance(x, dict):
        if "__nd__" in x:
            return np.array(x["__nd__"], dtype=x.get("dtype", "float64"))
        if "__float__" in x:
            return float(x["__float__"])
        return {k: from_jsonable(v) for k, v in x.items()}
    if isinstance(x, list):
        return [from_jsonable(v) for v in x]
    return x


def dump_plan(plan, path):
    os.makedirs(os.path.dirname(path), exist_ok=True)
    with open(path, "w") as f:
        json.dump(to_jsonable(plan), f, indent=1, sort_keys=True)
        f.write("\n")


def load_plan(path):
    with open(path) as f:
        return from_jsonable(json.load(f))


def plan_digest(plan) -> str:
    s = json.dumps(to_jsonable(plan), sort_keys=True)
    return hashlib.sha256(s.encode()).hexdigest()[:16]


# ----------------------------------------------------------------------------
# canonical outcomes / event log
# ----------------------------------------------------------------------------

def canon(x):
    """Canonical, hashable, bit-exact description of an outcome."""
    if isinstance(x, Outcome):
        return ("outcome", x.kind, canon(x.value))
    if isinstance(x, np.ndarray):
        if x.dtype == object:
            return ("objarr", x.shape, tuple(canon(v) for v in x.ravel()))
        a = np.ascontiguousarray(x)
        return ("nd", a.shape, str(a.dtype), hashlib.sha256(a.tobytes()).hexdigest()[:20])
    if isinstance(x, (tuple, list)):
        return ("seq", tuple(canon(v) for v in x))
    if isinstance(x, dict):
        return ("map", tuple((k, canon(v)) for k, v in sorted(x.items())))
    if isinstance(x, (float, np.floating)):
        return ("f", float(x).hex())
    if isinstance(x, (bool, np.bool_)):
        return ("b", bool(x))
    if isinstance(x, (int, np.integer)):
        return ("i", int(x))
    if x is None or isinstance(x, str):
        return x
    return ("repr", type(x).__name__)


class Outcome:
    """Result of one call: ('ok', value) or ('exc', exception type name)."""

    __slots__ = ("kind", "value", "detail")

    def __init__(self, kind, value, detail=""):
        self.kind = kind
        self.value = value
        self.detail = detail

    @property
    def ok(self):
        return self.kind == "ok"

    def brief(self):
        if self.kind == "ok":
            return "ok"
        return f"{self.value}({self.detail[:80]})"


def call(fn, *a, **k) -> Outcome:
    """Call fn, mapping any Exception to an Outcome (BaseException propagates)."""
    try:
        v = fn(*a, **k)
    except Exception as e:  # noqa: BLE001 - outcomes are data
        return Outcome("exc", type(e).__name__, str(e))
    return Outcome("ok", v)


class EventLog:
    def __init__(self):
        self.events = []
        self._h = hashlib.sha256()

    def add(self, *fields):
        seq = len(self.events)
        c = canon(list(fields))
        self._h.update(repr((seq, c)).encode())
        self.events.append((seq,) + tuple(fields[:3]))

    def digest(self) -> str:
        return self._h.hexdigest()[:24]

    def __len__(self):
        return len(self.events)


# ----------------------------------------------------------------------------
# numeric comparison
# ----------------------------------------------------------------------------

def _is_num_array(x):
    return isinstance(x, np.ndarray) and x.dtype != object


def compare(a, b, rtol, atol):
    """Structural comparison of two outcomes' values.

    Returns (equal: bool, maxdiff: float, why: str)."""
    if isinstance(a, Outcome) or isinstance(b, Outcome):
        if not (isinstance(a, Outcome) and isinstance(b, Outcome)):
            return False, math.inf, "outcome vs value"
        if a.kind != b.kind:
            return False, math.inf, f"{a.brief()} vs {b.brief()}"
        if a.kind == "exc":
            return (a.value == b.value), (0.0 if a.value == b.value else math.inf), \
                f"{a.brief()} vs {b.brief()}"
        return compare(a.value, b.value, rtol, atol)
    if isinstance(a, (tuple, list)) and isinstance(b, (tuple, list)):
        if len(a) != len(b):
            return False, math.inf, "length"
        worst = 0.0
        for x, y in zip(a, b):
            ok, d, why = compare(x, y, rtol, atol)
            if not ok:
                return False, d, why
            worst = max(worst, d)
        return True, worst, ""
    if isinstance(a, np.ndarray) and a.dtype == object:
        if not (isinstance(b, np.ndarray) and b.dtype == object and a.shape == b.shape):
            return False, math.inf, "objarr shape"
        return compare(list(a.ravel()), list(b.ravel()), rtol, atol)
    if isinstance(a, (np.ndarray, float, int, np.floating, np.integer, bool, np.bool_)) and \
            isinstance(b, (np.ndarray, float, int, np.floating, np.integer, bool, np.bool_)):
        x = np.asarray(a)
        y = np.asarray(b)
        if x.shape != y.shape:
            return False, math.inf, f"shape {x.shape} vs {y.shape}"
        if x.dtype == bool or y.dtype == bool:
            eq = bool(np.array_equal(x, y))
            return eq, (0.0 if eq else math.inf), "bool array differs"
        x = x.astype(float)
        y = y.astype(float)
        nanx, nany = np.isnan(x), np.isnan(y)
        if not np.array_equal(nanx, nany):
            return False, math.inf, "nan pattern"
        infx, infy = np.isinf(x), np.isinf(y)
        if not (np.array_equal(infx, infy) and np.array_equal(x[infx], y[infy])):
            return False, math.inf, "inf pattern"
        m = ~(nanx | infx)
        if not m.any():
            return True, 0.0, ""
        d = np.abs(x[m] - y[m])
        tol = atol + rtol * np.maximum(np.abs(x[m]), np.abs(y[m]))
        worst = float(d.max())
        ok = bool(np.all(d <= tol))
        return ok, worst, (f"max|diff|={worst:.3g}" if not ok else "")
    if a is None and b is None:
        return True, 0.0, ""
    if type(a) is type(b) and not isinstance(a, np.ndarray):
        try:
            eq = bool(a == b)
        except Exception:  # noqa: BLE001
            eq = a is b
        return eq, (0.0 if eq else math.inf), f"{a!r} vs {b!r}"
    return False, math.inf, f"type {type(a).__name__} vs {type(b).__name__}"


def fingerprint(a: np.ndarray):
    """Bit-level identity of a caller-owned array (content, layout, flags)."""
    return (a.shape, a.strides, str(a.dtype), bool(a.flags.writeable),
            hashlib.sha256(np.ascontiguousarray(a).tobytes()).hexdigest()[:20])


class Violation(Exception):
    """Raised by oracles; carries (property, oracle class, message, detail dict)."""

    def __init__(self, prop, cls, msg, **detail):
        super().__init__(f"{prop}/{cls}: {msg}")
        self.prop = prop
        self.cls = cls
        self.msg = msg
        self.detail = detail

    def as_dict(self):
        return {"property": self.prop, "class": self.cls, "msg": self.msg,
                "detail": to_jsonable(self.detail)}
