"""C14 - estimator answers depend only on what is registered; queries are pure.

Simulated system: 1-3 ReceptorEstimator "clients" sharing one payload pool,
driven by seeded histories of mutators and queries under a seeded interleaving.
Reference model: normal-form replay (dead-write elimination + canonical order of
commuting mutators) on a fresh estimator, compared query by query.
Faults (separate batch, inside queries only): line interrupts, injected solver
errors, warnings-as-errors, errstate raise, ambient RNG perturbation.
"""
from __future__ import annotations

import copy
import itertools
import warnings

import numpy as np

from sim.kernel import (EventLog, Outcome, PlanRng, Violation, call, compare, fingerprint, sig)
from sim.seams import (ErrstateRaise, LineInterrupter, SimInterrupt, SolveSeam, WarningsAsErrors,
                       ambient_perturb, import_dreye, own_entropy)

ID = "C14"
USES_PRISTINE = True
PANEL_PER_MODE = 3
PER_RUN_CAP = 900
WALL_CAP = {"quick": 400, "thorough": 6600}
MINIMISE_S = 60.0
MINIMISE_TOTAL_S = 240.0
MAX_REPORTS = 4

RULE = ("seeded histories over {register_system, register_bounds, register_adaptation, "
        "register_baseline, register_background_adaptation(add/replace), "
        "register_system_adaptation(add/replace), register_targets, fit(), queries} for 1-3 "
        "interleaved clients sharing payload arrays; a run is non-trivial when its normal form "
        "differs from the history (a dead write was removed or commuting mutators were "
        "reordered) or a fault fired; distinct = distinct (clients, op-kind trigram set, "
        "#dead, #swaps, registered-value class, fault kinds fired) keys")
ASSUMPTIONS = [
    "normal-form rewriting table (read/write sets of the 8 mutators) is correct; it is derived "
    "from the docstrings and printed in coverage.nf_table",
    "cvxpy/OSQP/CLARABEL/SCS/qhull are deterministic functions of their inputs "
    "(re-checked by the determinism panel on every invocation)",
    "payloads stay in the well-scaled regime of the tutorials",
    "sampled, not exhaustive: a clean batch is evidence over the explored plans only",
]
COMPONENTS = {
    "real": ["dreye (imported from /repo working tree)", "cvxpy", "OSQP", "CLARABEL", "SCS",
             "scipy.spatial qhull", "scipy.stats.qmc", "numpy PCG64"],
    "wrapped": ["cvxpy.Problem.solve (recorder / SolverError injector, never alters results)"],
    "simulated": ["client interleaving (seeded schedule)", "interruption (sys.settrace in "
                  "/repo/dreye frames)", "ambient RNG state", "warnings filter", "np.errstate"],
    "absent_in_code_under_test": ["clock", "network", "disk", "threads"],
}

NF_TABLE = {
    "register_system": {"reads": [], "writes": ["S", "lb", "ub"]},
    "register_bounds": {"reads": ["S"], "writes": ["lb if given", "ub if given"]},
    "register_adaptation": {"reads": [], "writes": ["K"]},
    "register_baseline": {"reads": [], "writes": ["baseline"]},
    "register_background_adaptation": {"reads": ["baseline if add_baseline", "K if add"],
                                       "writes": ["K"]},
    "register_system_adaptation": {"reads": ["S", "baseline if add_baseline", "K if add"],
                                   "writes": ["K"]},
    "register_targets": {"reads": ["S"], "writes": ["T"]},
    "fit": {"reads": ["S", "lb", "ub", "K", "baseline", "T"], "writes": ["T"]},
}

_dreye = None


def setup():
    global _dreye
    if _dreye is None:
        warnings.filterwarnings("ignore")
        _dreye = import_dreye()
    return _dreye


def batches(tier):
    if tier == "quick":
        return [("clean", 220), ("faults", 160), ("exh", len(exh_sequences(2)))]
    return [("clean", 9000), ("faults", 6000), ("exh", len(exh_sequences(3)))]


# ----------------------------------------------------------------------------
# payload pool
# ----------------------------------------------------------------------------

def _bumps(rng, n, x, amp=(0.5, 1.5), width=(1.5, 4.0), area=None):
    lo, hi = float(x.min()), float(x.max())
    centers = np.sort(rng.uniform(lo, hi, n))
    span = (hi - lo) / max(len(x) - 1, 1)
    out = np.zeros((n, len(x)))
    for i, c in enumerate(centers):
        w = rng.uniform(*width) * span
        y = np.exp(-0.5 * ((x - c) / w) ** 2) + 0.02
        if area is not None:
            y = y / np.trapezoid(y, x) * rng.uniform(*area)
        else:
            y = y * rng.uniform(*amp)
        out[i] = y
    return out


def make_pool(rng: PlanRng):
    n_rec = rng.integers(2, 4)
    n_dom = rng.integers(8, 14)
    kind = rng.choice(["step", "array", "array_nonuniform"], p=[0.45, 0.35, 0.2])
    pool, meta = {}, {}
    if kind == "step":
        # a scalar step is as often typed 1 or 2 as 1.0: integer-typed steps are legal input
        dx = rng.choice([1.0, 0.5, 2.0, 1, 3, 2])
        x = np.arange(n_dom) * float(dx)
        pool["DOM"] = dx
    else:
        steps = np.full(n_dom - 1, float(rng.choice([5.0, 10.0])))
        if kind == "array_nonuniform":
            steps = steps * rng.uniform(0.6, 1.4, n_dom - 1)
        x = sig(300.0 + np.concatenate([[0.0], np.cumsum(steps)]))
        if rng.coin(0.3):
            # wavelengths typed as integers (np.arange(300, 701, 5)): same meaning, other dtype;
            # odd steps / gaps so that half-step end weights are not integers
            gaps = np.asarray(rng.g.choice([1, 3, 5, 5, 10], n_dom - 1), dtype=np.int64) \
                if kind == "array_nonuniform" else \
                np.full(n_dom - 1, int(rng.choice([1, 5, 3])), dtype=np.int64)
            x = np.concatenate([[300], 300 + np.cumsum(gaps)]).astype(np.int64)
        pool["DOM"] = x
        # a foreign domain overlapping the filter domain with another step
        n_fd = rng.integers(7, 16)
        fd = sig(np.linspace(x[0] - rng.uniform(0, 15), x[-1] + rng.uniform(0, 15), n_fd))
        pool["FD"] = fd
        # the filters' own grid shifted by a fraction of a step: same length, so every
        # own-grid spectrum is also a legal spectrum on this foreign domain
        pool["FD3"] = sig(x + float(rng.uniform(0.2, 0.8)) * float(x[1] - x[0]))
    meta["kind"] = kind
    meta["n_rec"], meta["n_dom"] = n_rec, n_dom
    pool["F"] = sig(_bumps(rng, n_rec, x))
    pool["w1"] = sig(rng.uniform(0.5, 2.0, n_rec))
    # sources
    meta["n_src"] = {}
    n_sets = rng.integers(2, 4)
    sizes = [rng.integers(1, 6) for _ in range(n_sets)]
    if rng.coin(0.6):
        sizes[-1] = sizes[0]  # same size re-registration possible (bounds survive as 'shape')
    for j, k in enumerate(sizes):
        pool[f"S{j}"] = sig(_bumps(rng, k, x, area=(0.6, 3.0)))
        meta["n_src"][f"S{j}"] = k
    # an integer-typed source set (counts / digitised spectra): same meaning, other dtype
    k = rng.integers(1, 4)
    Si = np.asarray(rng.g.integers(0, 4, (k, n_dom)), dtype=np.int64)
    Si[np.arange(k), rng.g.integers(1, n_dom - 1, k)] += 2     # no all-zero source
    pool["Si"] = Si
    meta["n_src"]["Si"] = k
    if kind != "step":
        k = rng.integers(1, 5)
        pool["SF0"] = sig(_bumps(rng, k, pool["FD"], area=(0.6, 3.0)))
        meta["n_src"]["SF0"] = k
    ks = sorted(set(meta["n_src"].values()))
    meta["ks"] = ks
    # adaptation / baseline
    pool["Ks"] = float(sig(rng.uniform(0.3, 3.0)))
    pool["Kv0"] = sig(rng.uniform(0.3, 3.0, n_rec))
    pool["Kv1"] = sig(rng.uniform(0.3, 3.0, n_rec))
    Km = np.diag(rng.uniform(0.5, 2.0, n_rec)) + rng.uniform(0.0, 0.08, (n_rec, n_rec))
    pool["Km"] = sig(Km)
    # structured matrices: lower / upper triangular (an adaptation that only feeds forward)
    Kt = sig(np.diag(rng.uniform(0.5, 2.0, n_rec)) + rng.uniform(-0.3, 0.3, (n_rec, n_rec)))
    pool["Kml"] = np.tril(Kt)
    pool["Kmu"] = np.triu(Kt)
    pool["b0"] = 0.0
    pool["bs"] = float(sig(rng.uniform(0.1, 1.0)))
    pool["bv0"] = sig(rng.uniform(0.1, 1.0, n_rec))
    pool["bv1"] = sig(rng.uniform(0.1, 1.0, n_rec))
    # some receptors without a baseline capture: a vector with exact zeros (not all of them)
    bvz = sig(rng.uniform(0.1, 1.0, n_rec))
    bvz[rng.integers(0, n_rec - 1)] = 0.0
    if n_rec > 2 and rng.coin(0.5):
        bvz[rng.integers(0, n_rec - 1)] = 0.0
    if not np.any(bvz):
        bvz[0] = 0.4
    pool["bvz"] = bvz
    # bounds, intensities
    pool["lbs"] = float(sig(rng.uniform(0.05, 0.3)))
    pool["ubs0"] = float(sig(rng.uniform(1.0, 4.0)))
    pool["ubs1"] = float(sig(rng.uniform(5.0, 10.0)))
    pool["ubinf"] = float("inf")        # lifting an upper bound again
    for k in ks:
        pool[f"lb{k}a"] = sig(rng.uniform(0.05, 0.5, k))
        pool[f"ub{k}a"] = sig(rng.uniform(1.0, 4.0, k))
        pool[f"ub{k}b"] = sig(rng.uniform(5.0, 10.0, k))
        pool[f"lb{k}B"] = sig(rng.uniform(4.1, 4.9, k))     # above every "small" upper bound
        # integer-typed bounds (a caller writing ub=[2, 5, 3]) - same meaning, other dtype
        pool[f"ub{k}i"] = np.asarray([rng.integers(2, 9) for _ in range(k)], dtype=np.int64)
        pool[f"lb{k}i"] = np.zeros(k, dtype=np.int64)
        pool[f"x{k}a"] = sig(rng.uniform(0.5, 3.0, k))
        pool[f"x{k}b"] = sig(rng.uniform(0.5, 3.0, k))
        pool[f"U{k}"] = sig(rng.uniform(0.05, 0.95, (5, k)))   # fractions of the bound range
        pool[f"Eps{k}"] = sig(rng.uniform(0.01, 1.0, (n_rec, k)))   # a per-call variance model
        if k >= 2:
            mix = rng.uniform(1.0, 6.0, k)
            mix[rng.integers(0, k - 1)] = np.inf           # finite and infinite mixed: rejected
            pool[f"ubmix{k}"] = sig(mix)
        pool[f"xbad{k}"] = sig(rng.uniform(0.5, 3.0, k + 1))   # wrong length: rejected
        X = rng.uniform(0.0, 6.0, (6, k))
        X[0] = rng.uniform(0.0, 0.04, k)       # below every positive lb
        X[1] = rng.uniform(10.5, 12.0, k)      # above every finite ub
        pool[f"X{k}"] = sig(X)
    # spectra
    pool["Sbad"] = sig(rng.uniform(0.1, 1.0, (2, n_dom + 1)))   # wrong domain length: rejected
    pool["bg0"] = sig(rng.uniform(0.5, 2.0, n_dom))
    pool["bg1"] = sig(rng.uniform(0.5, 2.0, n_dom))
    pool["sig"] = sig(rng.uniform(0.0, 2.0, (3, n_dom)))
    if kind != "step":
        pool["bgF"] = sig(rng.uniform(0.5, 2.0, len(pool["FD"])))
        pool["sigF"] = sig(rng.uniform(0.0, 2.0, (2, len(pool["FD"]))))
    # targets: all of one run share the row count so a registered per-sample W fits every query
    n_rows = rng.integers(1, 5)
    meta["n_rows"] = n_rows
    pool["Bt0"] = sig(rng.uniform(0.2, 2.0, (n_rows, n_rec)))
    pool["Bt1"] = sig(rng.uniform(1.0, 12.0, (n_rows, n_rec)))
    pool["Bt2"] = sig(rng.uniform(0.05, 30.0, (n_rows, n_rec)))
    pool["Bq0"] = sig(rng.uniform(0.2, 2.5, (n_rows, n_rec)))
    pool["Bq1"] = sig(rng.uniform(0.5, 15.0, (n_rows, n_rec)))
    # explicit targets with *another* number of rows than anything that gets registered
    pool["Bq2"] = sig(rng.uniform(0.5, 12.0, (n_rows + rng.integers(1, 3), n_rec)))
    Bz = rng.uniform(0.05, 6.0, (n_rows, n_rec))
    Bz[rng.integers(0, n_rows - 1)] = 0.0     # an all-zero row (legal target, C12)
    pool["Bz"] = sig(Bz)
    pool["Wt0"] = sig(rng.uniform(0.5, 2.0, (n_rows, n_rec)))
    pool["Wt1"] = sig(rng.uniform(0.5, 2.0, (n_rows, n_rec)))
    pool["np0"] = sig(rng.uniform(0.7, 1.3, n_rec))
    return pool, meta


# ----------------------------------------------------------------------------
# symbolic state (what a *valid* history may do next)
# ----------------------------------------------------------------------------

class Sym:
    def __init__(self):
        self.has_sys = False
        self.n_src = None
        self.has_tgt = False
        self.has_W = False      # per-sample weights registered with the targets
        self.lb_big = False     # the registered lower bound lies above the small upper bounds

    def copy(self):
        s = Sym()
        s.__dict__.update(self.__dict__)
        return s


def sym_apply(sym: Sym, op, meta):
    """Advance the symbolic state; return False if `op` is not valid here."""
    m = op["m"]
    if op.get("reject"):
        return sym.has_sys or m == "register_system"
    def big_ub(r):
        return isinstance(r, str) and (r in ("ubs1", "ubinf") or r.endswith("b"))

    def big_lb(r):
        return isinstance(r, str) and r.endswith("B")

    if m == "register_system":
        sym.has_sys = True
        k = meta["n_src"][op["sources"]]
        for b in ("lb", "ub"):
            r = op.get(b)
            if isinstance(r, str) and r[2:-1].isdigit() and int(r[2:-1]) != k:
                return False
        if big_lb(op.get("lb")) and not (op.get("ub") is None or big_ub(op.get("ub"))):
            return False                     # would register an empty box
        sym.lb_big = big_lb(op.get("lb"))
        sym.n_src = k
        return True
    if m in ("register_adaptation", "register_baseline", "register_background_adaptation"):
        return True
    if not sym.has_sys:
        return False
    if m == "register_bounds":
        for b in ("lb", "ub"):
            r = op.get(b)
            if isinstance(r, str) and r[2:-1].isdigit() and int(r[2:-1]) != sym.n_src:
                return False
        lb_after = big_lb(op["lb"]) if op.get("lb") is not None else sym.lb_big
        if op.get("ub") is not None and lb_after and not big_ub(op["ub"]):
            return False                     # would register an empty box
        if big_lb(op.get("lb")) and op.get("ub") is None:
            return False                     # the current upper bound may be a small one
        sym.lb_big = lb_after
        return True
    if m == "register_system_adaptation":
        r = op["x"]
        return int(r[1:-1]) == sym.n_src
    if m == "register_targets":
        sym.has_tgt = True
        sym.has_W = op.get("W") is not None
        return True
    if m == "fit":
        return sym.has_tgt
    raise KeyError(m)


def valid_history(ops, meta):
    sym = Sym()
    for op in ops:
        if "m" in op and not sym_apply(sym, op, meta):
            return False
    return True


# ----------------------------------------------------------------------------
# read / write sets and the normal form
# ----------------------------------------------------------------------------

ALL = frozenset(["S", "lb", "ub", "K", "baseline", "T"])
ORDER = {"register_baseline": 0, "register_adaptation": 1, "register_system": 2,
         "register_bounds": 3, "register_background_adaptation": 4,
         "register_system_adaptation": 5, "register_targets": 6, "fit": 7}


def rw(op):
    m = op["m"]
    if m == "register_system":
        return frozenset(), frozenset(["S", "lb", "ub"])
    if m == "register_bounds":
        w = set()
        if op.get("lb") is not None:
            w.add("lb")
        if op.get("ub") is not None:
            w.add("ub")
        return frozenset(["S"]), frozenset(w)
    if m == "register_adaptation":
        return frozenset(), frozenset(["K"])
    if m == "register_baseline":
        return frozenset(), frozenset(["baseline"])
    if m == "register_background_adaptation":
        r = set()
        if op["add_baseline"]:
            r.add("baseline")
        if op["add"]:
            r.add("K")
        return frozenset(r), frozenset(["K"])
    if m == "register_system_adaptation":
        r = {"S"}
        if op["add_baseline"]:
            r.add("baseline")
        if op["add"]:
            r.add("K")
        return frozenset(r), frozenset(["K"])
    if m == "register_targets":
        return frozenset(["S"]), frozenset(["T"])
    if m == "fit":
        return frozenset(["S", "lb", "ub", "K", "baseline", "T"]), frozenset(["T"])
    raise KeyError(m)


def commute(a, b):
    ra, wa = rw(a)
    rb, wb = rw(b)
    return not (wa & (rb | wb)) and not (wb & ra)


def normal_form(muts):
    """Return (nf_ops, n_dead, n_swaps)."""
    live = set(ALL)
    keep = []
    dead = 0
    for op in reversed(muts):
        r, w = rw(op)
        if w and not (w & live):
            dead += 1
            continue
        if not w:  # register_bounds(None, None): writes nothing at all
            dead += 1
            continue
        live -= w
        live |= r
        keep.append(op)
    keep.reverse()
    swaps = 0
    changed = True
    while changed:
        changed = False
        for i in range(len(keep) - 1):
            a, b = keep[i], keep[i + 1]
            if ORDER[a["m"]] > ORDER[b["m"]] and commute(a, b):
                keep[i], keep[i + 1] = b, a
                swaps += 1
                changed = True
    return keep, dead, swaps


# ----------------------------------------------------------------------------
# executing ops on a real estimator
# ----------------------------------------------------------------------------

def P(pool, ref):
    return None if ref is None else pool[ref]


def new_estimator(client, pool, bare=False):
    """bare=True: only filters, domain and w (the reference is built by explicit register
    calls); bare=False: K / baseline / sources / bounds the plan puts in the constructor are
    passed to the constructor (same registered values by another route)."""
    c = client["ctor"]
    kw = {}
    if c.get("w"):
        kw["w"] = pool[c["w"]]
    if not bare:
        for key in ("K", "baseline", "sources", "lb", "ub"):
            if c.get(key) is not None:
                kw[key] = pool[c[key]]
    return _dreye.ReceptorEstimator(pool["F"], domain=pool["DOM"], **kw)


def ctor_ops(client):
    """The constructor's registrations written as the equivalent explicit mutators, in the
    constructor's own order (adaptation, baseline, system)."""
    c = client["ctor"]
    ops = []
    if c.get("K") is not None:
        ops.append({"m": "register_adaptation", "K": c["K"]})
    if c.get("baseline") is not None:
        ops.append({"m": "register_baseline", "baseline": c["baseline"]})
    if c.get("sources") is not None:
        ops.append({"m": "register_system", "sources": c["sources"], "domain": None,
                    "lb": c.get("lb"), "ub": c.get("ub")})
    return ops


def apply_mutator(est, op, pool):
    m = op["m"]
    if m == "register_system":
        est.register_system(pool[op["sources"]], domain=P(pool, op.get("domain")),
                            lb=P(pool, op.get("lb")), ub=P(pool, op.get("ub")))
    elif m == "register_bounds":
        est.register_bounds(lb=P(pool, op.get("lb")), ub=P(pool, op.get("ub")))
    elif m == "register_adaptation":
        est.register_adaptation(pool[op["K"]])
    elif m == "register_baseline":
        est.register_baseline(pool[op["baseline"]])
    elif m == "register_background_adaptation":
        est.register_background_adaptation(pool[op["background"]], domain=P(pool, op.get("domain")),
                                           add_baseline=op["add_baseline"], add=op["add"])
    elif m == "register_system_adaptation":
        est.register_system_adaptation(pool[op["x"]], add_baseline=op["add_baseline"],
                                       add=op["add"])
    elif m == "register_targets":
        est.register_targets(pool[op["B"]], W=P(pool, op.get("W")))
    elif m == "fit":
        if op.get("how", "fit") == "mv":
            est.minimize_variance()
        else:
            est.fit()
    else:
        raise KeyError(m)


SOLVER_QUERIES = {"fit", "fit_underdetermined", "minimize_variance", "fit_adaptive",
                  "fit_decomposition", "range_of_solutions"}


def process_state():
    """Process-global settings a query could change behind the caller's back and that decide
    whether later calls raise: the warning filters and numpy's floating-point error state."""
    return {"warnings.filters": [(f[0], getattr(f[1], "pattern", f[1]), f[2],
                                  getattr(f[3], "pattern", f[3]), f[4]) for f in warnings.filters],
            "numpy.geterr": dict(np.geterr())}


def derive_args(est_ref, pool, meta, n_src):
    """Arguments derived from the *reference* state so that some queries are meaningful in
    every state: 'Bin?' = relative captures of in-bound intensities (in-gamut targets),
    'npin?' = relative capture of the mid-range intensity (a neutral point inside the
    chromatic gamut).  Computed once per comparison and handed to both objects."""
    out = {}
    try:
        if n_src < meta["n_rec"]:
            # fewer sources than receptors: the gamut is flat, every derived point sits exactly
            # on its boundary and hull decisions about it hinge on the last ulp
            raise ValueError("flat gamut")
        lb = np.asarray(est_ref.lb, float)
        ub = np.asarray(est_ref.ub, float)
        ub = np.where(np.isfinite(ub), ub, lb + 5.0)
        U = pool[f"U{n_src}"][:meta["n_rows"]]
        out["Bin?"] = np.asarray(est_ref.system_relative_capture(lb + U * (ub - lb)))
        out["npin?"] = np.asarray(est_ref.system_relative_capture(lb + 0.5 * (ub - lb)))
    except Exception:  # noqa: BLE001 - no system registered (yet): fall back to literals
        out["Bin?"] = pool["Bq0"]
        out["npin?"] = pool["np0"]
    return out


def resolve(ref, n_src):
    if isinstance(ref, str) and ref.endswith("?"):
        return f"{ref[:-1]}{n_src if n_src else 1}"
    return ref


def run_query(est, q, pool, n_src):
    """Execute one read-only query.  Returns a value (arrays / tuples)."""
    name = q["q"]
    a = q.get("a", {})

    def g(key, default=None):
        r = a.get(key, default)
        if isinstance(r, str) and r in ("Bin?", "npin?"):
            return pool[r]          # overlay provided by the caller (derive_args)
        r = resolve(r, n_src)
        if isinstance(r, str) and r in pool:
            return pool[r]
        return r

    if name == "capture":
        return est.capture(g("signals"), domain=g("domain"))
    if name == "relative_capture":
        return est.relative_capture(g("signals"), domain=g("domain"))
    if name == "system_capture":
        return est.system_capture(g("X"))
    if name == "system_relative_capture":
        return est.system_relative_capture(g("X"))
    if name == "in_system":
        return est.in_system(g("X"))
    if name == "props":
        return (bool(est.registered), bool(est.underdetermined), bool(est.registered_targets))
    if name == "in_gamut":
        return est.in_gamut(g("B"), relative=a.get("relative", True),
                            normalized=a.get("normalized", False))
    if name == "range_of_solutions":
        n_spaced = a.get("n")
        # the spaced-solution recursion is exponential in the number of surplus sources:
        # only asked for when at most two sources are surplus
        if n_spaced and n_src and n_src - pool["F"].shape[0] > 2:
            n_spaced = None
        return est.range_of_solutions(g("B"), relative=a.get("relative", True), error="ignore",
                                      n=n_spaced)
    if name == "sample_in_gamut":
        return est.sample_in_gamut(n=a.get("n", 6), seed=a.get("seed", 1), engine=a.get("engine"),
                                   l1=a.get("l1"), relative=a.get("relative", True))
    if name == "compute_gamut":
        return est.compute_gamut(fraction=a.get("fraction", True), at_l1=a.get("at_l1"),
                                 metric=a.get("metric", "width"), seed=a.get("seed", 1),
                                 relative=a.get("relative", True))
    if name == "gamut_l1_scaling":
        return est.gamut_l1_scaling(g("B"), relative=a.get("relative", True))
    if name == "gamut_dist_scaling":
        return est.gamut_dist_scaling(g("B"), neutral_point=g("neutral_point"),
                                      relative=a.get("relative", True))
    if name == "fit":
        return est.fit(g("B"), model=a.get("model", "gaussian"), batch_size=a.get("batch_size", 1))
    if name == "fit_underdetermined":
        return est.fit_underdetermined(g("B"), underdetermined_opt=a.get("opt"))
    if name == "minimize_variance":
        if a.get("Epsilon"):
            return est.minimize_variance(g("B"), Epsilon=g("Epsilon"))
        return est.minimize_variance(g("B"))
    if name == "fit_adaptive":
        return est.fit_adaptive(g("B"), solver="CLARABEL",
                                adaptive_objective=a.get("objective", "unity"))
    if name == "fit_decomposition":
        return est.fit_decomposition(g("B"), n_layers=a.get("n_layers", 2), seed=a.get("seed", 3),
                                     max_iter=a.get("max_iter", 2), subsample=None)
    raise KeyError(name)


def pristine_battery(pool, meta, client, nf_ops, queries, n_src):
    """Runs inside a freshly forked child of the pristine server (dreye imported, never
    called): normal-form replay on a new estimator, then every query on its own copy."""
    import warnings as _w
    _w.filterwarnings("ignore")
    est = new_estimator(client, pool, bare=True)
    for op in nf_ops:
        apply_mutator(est, op, pool)
    qpool = dict(pool, **derive_args(copy.deepcopy(est), pool, meta, n_src))
    return [call(run_query, copy.deepcopy(est), q, qpool, n_src) for q in queries]


def query_array_args(q, pool, n_src):
    out = []
    for v in q.get("a", {}).values():
        v = resolve(v, n_src)
        if isinstance(v, str) and v in pool and isinstance(pool[v], np.ndarray):
            out.append(v)
    return out


def op_array_args(op, pool):
    return [v for v in op.values() if isinstance(v, str) and v in pool
            and isinstance(pool[v], np.ndarray)]


# ----------------------------------------------------------------------------
# plan generation
# ----------------------------------------------------------------------------

# state-revealing, sub-millisecond probes run after *every* crash point of a sweep
# (K, baseline, A through the captures; lb, ub through in_system); the full cheap
# battery (which also reveals the registered targets) runs after the sweep
MINI_BATTERY = [
    {"q": "relative_capture", "a": {"signals": "sig"}},
    {"q": "system_relative_capture", "a": {"X": "X?"}},
    {"q": "in_system", "a": {"X": "X?"}},
    {"q": "props"},
]


def cheap_battery(meta):
    b = [
        {"q": "props"},
        {"q": "capture", "a": {"signals": "sig"}},
        {"q": "relative_capture", "a": {"signals": "sig"}},
        {"q": "system_capture", "a": {"X": "X?"}},
        {"q": "system_relative_capture", "a": {"X": "X?"}},
        {"q": "in_system", "a": {"X": "X?"}},
        {"q": "in_gamut", "a": {"B": "Bq0"}},
        {"q": "in_gamut", "a": {"B": None}},
    ]
    return b


def random_query(rng: PlanRng, meta, solver_ok=True, slow_ok=True):
    B = rng.choice(["Bq0", "Bq1", "Bq2", "Bt0", "Bt1", "Bin?", "Bin?"])
    kind = meta["kind"]
    cheap = [
        lambda: {"q": "capture", "a": {"signals": "sig"}},
        lambda: {"q": "relative_capture", "a": {"signals": "sig"}},
        lambda: {"q": "system_capture", "a": {"X": "X?"}},
        lambda: {"q": "system_relative_capture", "a": {"X": "X?"}},
        lambda: {"q": "in_system", "a": {"X": "X?"}},
        lambda: {"q": "in_gamut", "a": {"B": B, "relative": rng.coin(0.8)}},
        lambda: {"q": "in_gamut", "a": {"B": None}},
        lambda: {"q": "in_gamut", "a": {"B": B, "normalized": True}},
        lambda: {"q": "range_of_solutions", "a": {"B": B, "n": rng.choice([None, None, 3])}},
        lambda: {"q": "range_of_solutions", "a": {"B": None}},
        lambda: {"q": "sample_in_gamut", "a": {"n": rng.integers(1, 9), "seed": rng.integers(0, 5),
                                                "engine": rng.choice([None, None, "Halton", "Sobol",
                                                                      "LHC"]),
                                                "l1": rng.choice([None, None, 1.0, 2.5]),
                                                "relative": rng.coin(0.65)}},
        lambda: {"q": "compute_gamut", "a": {"seed": rng.integers(0, 5),
                                              "metric": rng.choice(["width", "volume"]),
                                              "fraction": rng.coin(0.7),
                                              "at_l1": rng.choice([None, None, 1.0, 3.0]),
                                              "relative": rng.coin(0.8)}},
        lambda: {"q": "gamut_l1_scaling", "a": {"B": B, "relative": rng.coin(0.65)}},
        lambda: {"q": "gamut_dist_scaling", "a": {"B": B, "relative": rng.coin(0.8), "neutral_point":
                                                   rng.choice([None, "np0", "npin?", "npin?"])}},
        lambda: {"q": "gamut_dist_scaling", "a": {"B": "Bz", "neutral_point":
                                                   rng.choice([None, "np0", "npin?", "npin?"])}},
        lambda: {"q": "gamut_l1_scaling", "a": {"B": "Bz"}},
    ]
    if kind != "step":
        cheap += [
            lambda: {"q": "capture", "a": {"signals": "sigF", "domain": "FD"}},
            lambda: {"q": "relative_capture", "a": {"signals": "sigF", "domain": "FD"}},
            lambda: {"q": "relative_capture", "a": {"signals": "sig", "domain": "FD3"}},
        ]
    solver = [
        lambda: {"q": "fit", "a": {"B": B, "model": "gaussian",
                                    "batch_size": rng.choice([1, 1, 2, "full"])}},
        lambda: {"q": "fit", "a": {"B": B, "model": (
            "excitation" if (slow_ok and rng.coin(0.04)) else "poisson")}},
        lambda: {"q": "fit", "a": {"B": B}},
        lambda: {"q": "fit_underdetermined", "a": {"B": "Bin?", "opt": rng.choice([None, "min", "max",
                                                                                    "var"])}},
        lambda: {"q": "minimize_variance", "a": ({"B": B, "Epsilon": "Eps?"} if rng.coin(0.35)
                                                  else {"B": B})},
        lambda: {"q": "fit_adaptive", "a": {"B": B, "objective": rng.choice(["unity", "max"])}},
        lambda: {"q": "fit_decomposition", "a": {"B": B, "n_layers": rng.integers(1, 2),
                                                  "seed": rng.integers(0, 3)}},
    ]
    if solver_ok and rng.coin(0.3):
        w = [4, 2.5, 2, 2, 2, 1, 0.3 if slow_ok else 0.0]
        return rng.choice(solver, p=w)()
    return rng.choice(cheap)()


def random_mutator(rng: PlanRng, sym: Sym, meta, first=False, allow_reject=False):
    kind = meta["kind"]
    k = sym.n_src

    def m_system():
        names = [n for n in meta["n_src"] if not n.startswith("SF")]
        src = rng.choice(names)
        dom = None
        if kind != "step" and rng.coin(0.3):
            src, dom = "SF0", "FD"
        elif kind != "step" and rng.coin(0.25):
            dom = "FD3"          # the same values, declared to live on a shifted grid
        kk = meta["n_src"][src]
        lb = rng.choice([None, None, "lbs", f"lb{kk}a", f"lb{kk}i"], p=[2, 2, 2, 2, 1])
        ub = rng.choice([None, "ubs0", "ubs1", f"ub{kk}a", f"ub{kk}b", f"ub{kk}i"],
                        p=[1, 2, 2, 3, 3, 2])
        return {"m": "register_system", "sources": src, "domain": dom, "lb": lb, "ub": ub}

    def m_bounds():
        lb = rng.choice([None, "lbs", f"lb{k}a", f"lb{k}i", f"lb{k}B"], p=[3, 1, 2, 0.5, 0.8])
        ub = rng.choice([None, "ubs0", "ubs1", f"ub{k}a", f"ub{k}b", f"ub{k}i", "ubinf"],
                        p=[1, 1, 1, 2, 2, 1.5, 0.9])
        if lb == f"lb{k}B":
            ub = rng.choice(["ubs1", f"ub{k}b"])     # lower and upper bound raised together
        if lb is None and ub is None:
            ub = f"ub{k}a"
        return {"m": "register_bounds", "lb": lb, "ub": ub}

    def m_adapt():
        return {"m": "register_adaptation", "K": rng.choice(["Ks", "Kv0", "Kv1", "Km", "Kml", "Kmu"],
                                                            p=[1, 3, 3, 1.5, 0.7, 0.5])}

    def m_base():
        return {"m": "register_baseline", "baseline": rng.choice(["b0", "bs", "bv0", "bv1", "bvz"])}

    def m_bg():
        bg, dom = rng.choice(["bg0", "bg1"]), None
        if kind != "step" and rng.coin(0.3):
            bg, dom = "bgF", "FD"
        elif kind != "step" and rng.coin(0.2):
            dom = "FD3"
        return {"m": "register_background_adaptation", "background": bg, "domain": dom,
                "add_baseline": rng.coin(0.7), "add": rng.coin(0.35)}

    def m_sysad():
        return {"m": "register_system_adaptation", "x": rng.choice([f"x{k}a", f"x{k}b"]),
                "add_baseline": rng.coin(0.7), "add": rng.coin(0.35)}

    def m_targets():
        return {"m": "register_targets", "B": rng.choice(["Bt0", "Bt1", "Bt2"]),
                "W": rng.choice([None, None, "Wt0", "Wt1"])}

    def m_fit():
        # fit() or another fitting call on the registered targets (both store X and B)
        return {"m": "fit", "how": "mv"} if rng.coin(0.3) else {"m": "fit"}

    def m_reject():
        # a registration the library rejects (raises): nothing may have been registered
        big = [n for n, kk in meta["n_src"].items() if kk >= 2 and not n.startswith("SF")]
        kinds_ = ["sysadapt_len", "system_len"] + (["bounds_mixed"] if (k or 0) >= 2 else []) \
            + (["system_bounds_mixed"] if big else [])
        c = rng.choice(kinds_)
        if c == "system_bounds_mixed":
            # valid sources, rejected only when the bounds are validated: by then the call has
            # already looked at (and possibly stored) the new sources
            src = rng.choice(big)
            return {"m": "register_system", "sources": src, "domain": None, "lb": None,
                    "ub": f"ubmix{meta['n_src'][src]}", "reject": True}
        if c == "bounds_mixed":
            return {"m": "register_bounds", "lb": rng.choice([None, "lbs", f"lb{k}a"]),
                    "ub": f"ubmix{k}", "reject": True}
        if c == "sysadapt_len":
            return {"m": "register_system_adaptation", "x": f"xbad{k}", "add_baseline": True,
                    "add": rng.coin(0.5), "reject": True}
        return {"m": "register_system", "sources": "Sbad", "domain": None, "lb": None,
                "ub": "ubs0", "reject": True}

    opts = [(m_adapt, 2.0), (m_base, 2.0), (m_bg, 2.0), (m_system, 2.5 if sym.has_sys else 8.0)]
    if sym.has_sys and allow_reject:
        opts += [(m_reject, 1.0)]
    if sym.has_sys:
        opts += [(m_bounds, 3.0), (m_sysad, 2.0), (m_targets, 2.5)]
    if sym.has_tgt:
        opts += [(m_fit, 1.2)]
    fns, ws = zip(*opts)
    return rng.choice(fns, p=ws)()


FAULT_KINDS = ["line_interrupt", "solver_error", "warnings_as_errors", "errstate_raise"]

# ---- exhaustive short histories ("exhaustively up to a bounded length") -----------------------
# 15 concrete mutator variants; '{k}' is resolved to the current number of sources when the
# sequence is instantiated.  needs: 's' = a registered system, 't' = registered targets.
EXH_ALPHABET = [
    ("", {"m": "register_system", "sources": "S0", "domain": None, "lb": None, "ub": "ub{k0}a"}),
    ("", {"m": "register_system", "sources": "S1", "domain": None, "lb": "lbs", "ub": "ubs1"}),
    ("s", {"m": "register_bounds", "lb": None, "ub": "ub{k}b"}),
    ("s", {"m": "register_bounds", "lb": "lb{k}a", "ub": None}),
    ("", {"m": "register_adaptation", "K": "Kv0"}),
    ("", {"m": "register_adaptation", "K": "Km"}),
    ("", {"m": "register_baseline", "baseline": "bv0"}),
    ("", {"m": "register_baseline", "baseline": "b0"}),
    ("", {"m": "register_background_adaptation", "background": "bg0", "domain": None,
          "add_baseline": True, "add": False}),
    ("", {"m": "register_background_adaptation", "background": "bg1", "domain": None,
          "add_baseline": False, "add": True}),
    ("s", {"m": "register_system_adaptation", "x": "x{k}a", "add_baseline": True, "add": False}),
    ("s", {"m": "register_system_adaptation", "x": "x{k}b", "add_baseline": True, "add": True}),
    ("s", {"m": "register_targets", "B": "Bt0", "W": None}),
    ("s", {"m": "register_targets", "B": "Bt1", "W": "Wt0"}),
    ("t", {"m": "fit"}),
]
_EXH_CACHE = {}


def exh_sequences(max_len):
    """All valid sequences of alphabet indices of length 1..max_len (validity depends only on
    whether a system / targets are registered).  Every sequence is preceded, when executed, by
    nothing: the estimator starts empty, so sequences starting with a system-dependent op are
    invalid and not enumerated; to still exercise those ops at depth, sequences are also
    enumerated *after a fixed prefix* [register_system S0]."""
    if max_len in _EXH_CACHE:
        return _EXH_CACHE[max_len]
    out = []

    def rec(seq, has_s, has_t, prefix):
        if seq:
            out.append((prefix, tuple(seq)))
        if len(seq) == max_len:
            return
        for i, (need, op) in enumerate(EXH_ALPHABET):
            if need == "s" and not has_s:
                continue
            if need == "t" and not has_t:
                continue
            rec(seq + [i], has_s or op["m"] == "register_system",
                has_t or op["m"] == "register_targets", prefix)

    rec([], False, False, False)
    rec([], True, False, True)
    _EXH_CACHE[max_len] = out
    return out


def generate_exh(rs, tier, index):
    rng = PlanRng(rs)
    pool, meta = make_pool(rng)
    seqs = exh_sequences(2 if tier == "quick" else 3)
    prefix, seq = seqs[index % len(seqs)]
    ops = []
    sym = Sym()
    idxs = ([0] if prefix else []) + list(seq)
    for i in idxs:
        op = dict(EXH_ALPHABET[i][1])
        k = sym.n_src
        for key, v in list(op.items()):
            if isinstance(v, str) and "{k0}" in v:
                op[key] = v.replace("{k0}", str(meta["n_src"]["S0"]))
            elif isinstance(v, str) and "{k}" in v:
                op[key] = v.replace("{k}", str(k))
        s2 = sym.copy()
        assert sym_apply(s2, op, meta), (op, idxs)
        sym = s2
        ops.append(op)
    fb = [{"q": "fit", "a": {"B": "Bq1"}}, {"q": "range_of_solutions", "a": {"B": "Bq0"}},
          {"q": "sample_in_gamut", "a": {"n": 5, "seed": 2}}, {"q": "compute_gamut", "a": {"seed": 2}},
          {"q": "in_gamut", "a": {"B": "Bq1", "relative": False}},
          {"q": "gamut_l1_scaling", "a": {"B": "Bq0"}}]
    return {"check": ID, "run_seed": rs, "mode": "exh", "pool": pool, "meta": meta,
            "clients": [{"id": 0, "ctor": {"w": None}, "ops": ops}],
            "schedule": [0] * len(ops), "battery": cheap_battery(meta), "pristine": False,
            "full_battery_every": 0, "full_battery": fb,
            "exh": {"prefix": prefix, "seq": list(seq)}}


def generate(rs, mode, tier, index):
    if mode == "exh":
        return generate_exh(rs, tier, index)
    rng = PlanRng(rs)
    pool, meta = make_pool(rng)
    n_clients = rng.choice([1, 2, 3], p=[0.5, 0.3, 0.2])
    # swarm: per-run subset of fault kinds and fault density
    kinds = [k for k in FAULT_KINDS if rng.coin(0.6)] or ["line_interrupt"]
    fault_p = rng.choice([0.25, 0.5, 0.8]) if mode == "faults" else 0.0
    perturb_p = 0.15 if mode == "faults" else 0.0
    clients = []
    for cid in range(n_clients):
        sym = Sym()
        ctor = {"w": rng.choice([None, None, "w1"])}
        if rng.coin(0.3):
            if rng.coin(0.5):
                ctor["K"] = rng.choice(["Ks", "Kv0", "Km"])
            if rng.coin(0.5):
                ctor["baseline"] = rng.choice(["bs", "bv0"])
            if rng.coin(0.6):
                src = rng.choice([n for n in meta["n_src"] if not n.startswith("SF")])
                kk = meta["n_src"][src]
                ctor["sources"] = src
                ctor["lb"] = rng.choice([None, "lbs", f"lb{kk}a"])
                ctor["ub"] = rng.choice([None, "ubs0", f"ub{kk}a", f"ub{kk}i"])
        for op0 in ctor_ops({"ctor": ctor}):
            sym_apply(sym, op0, meta)
        n_mut = rng.integers(3, 14 if n_clients == 1 else 9)
        q_density = rng.choice([0.0, 0.4, 0.9]) if mode == "clean" else rng.choice([0.4, 0.9, 1.5])
        ops = []
        muts = 0
        while muts < n_mut:
            op = random_mutator(rng, sym, meta, allow_reject=(mode == "faults"))
            # bias: immediately re-register the same kind (dead write) or revisit it later
            s2 = sym.copy()
            if not sym_apply(s2, op, meta):
                continue
            sym = s2
            ops.append(op)
            muts += 1
            if op["m"] == "fit" and rng.coin(0.5):
                # fitting the registered targets twice in a row (the second call starts from
                # what the first one stored)
                ops.append({"m": "fit", "how": rng.choice(["fit", "mv"])} if op.get("how") == "mv"
                           or rng.coin(0.5) else {"m": "fit"})
                muts += 1
            while rng.coin(q_density / (1 + q_density)):
                q = random_query(rng, meta)
                past = [o for o in ops if "q" in o and o.get("a", {}).get("model") != "excitation"]
                if past and rng.coin(0.3):
                    # the very same request again, after whatever was registered since
                    q = copy.deepcopy(rng.choice(past))
                    q.pop("fault", None)
                if mode == "faults" and rng.coin(fault_p):
                    q["fault"] = {"kind": rng.choice(kinds), "frac": float(sig(rng.random(), 4)),
                                  "k": rng.integers(0, 5),
                                  "count": rng.choice([1, 4, 10, 25, 0], p=[2, 3, 3, 2, 2])}
                ops.append(q)
            if rng.coin(perturb_p):
                ops.append({"px": "rng_perturb", "k": rng.integers(1, 1000)})
        # always end with a few queries incl. one solver-backed
        for _ in range(rng.integers(1, 3)):
            ops.append(random_query(rng, meta))
        if mode == "faults":
            # interrupt audit: crash-point sweeps over cheap queries on the final state
            for _ in range(rng.integers(2, 4)):
                q = random_query(rng, meta, solver_ok=False)
                q["fault"] = {"kind": "line_interrupt", "frac": float(sig(rng.random(), 4)),
                              "k": 0, "count": rng.choice([0, 25])}
                ops.append(q)
        clients.append({"id": cid, "ctor": ctor, "ops": ops})
    sched = []
    for c in clients:
        sched += [c["id"]] * len(c["ops"])
    sched = rng.shuffle(sched)
    # which steps get the heavier (solver-backed) battery
    plan = {"check": ID, "run_seed": rs, "mode": mode, "pool": pool, "meta": meta,
            "clients": clients, "schedule": sched,
            "battery": cheap_battery(meta),
            "pristine": rng.coin(0.5 if tier == "quick" else 0.35),
            "full_battery_every": rng.choice([0, 3, 5]),
            "full_battery": [random_query(rng, meta, slow_ok=False) for _ in range(4)] + [
                {"q": "fit", "a": {"B": "Bq1"}},
                {"q": "fit", "a": {"B": "Bq1", "model": "poisson"}},
                {"q": "range_of_solutions", "a": {"B": "Bq0"}},
                {"q": "sample_in_gamut", "a": {"n": 5, "seed": 2}},
                {"q": "compute_gamut", "a": {"seed": 2}},
            ]}
    for q in plan["full_battery"]:
        q.pop("fault", None)
    if rng.coin(0.35):
        plan["observe"] = [rng.coin(0.3) for _ in sched]
    return plan


# ----------------------------------------------------------------------------
# execution
# ----------------------------------------------------------------------------

TOL_PLAIN = (1e-9, 1e-12)
TOL_SOLVER = (1e-7, 1e-7)


def tol_for(q):
    return TOL_SOLVER if q["q"] in SOLVER_QUERIES else TOL_PLAIN


class ClientState:
    def __init__(self, client, pool):
        self.client = client
        self.est = new_estimator(client, pool)
        self.muts = list(ctor_ops(client))   # registrations so far (history without queries)
        self.sym = Sym()
        self.pos = 0
        self.nf_master = None
        self.nf_info = (0, 0)
        self.alive = True
        self.pending = []      # (normal form at that time, query, answer, n_src): pristine refs
        self.nf_not = None     # reference object without any target registration / fit


def build_nf(cs: ClientState, pool, meta):
    nf, dead, swaps = normal_form(cs.muts)
    est = new_estimator(cs.client, pool, bare=True)
    for op in nf:
        apply_mutator(est, op, pool)   # must not raise: the history itself succeeded
    cs.nf_not = None
    if cs.sym.has_tgt and not cs.sym.has_W:
        nf2, _, _ = normal_form([o for o in cs.muts if o["m"] not in ("register_targets", "fit")])
        e2 = new_estimator(cs.client, pool, bare=True)
        for op in nf2:
            apply_mutator(e2, op, pool)
        cs.nf_not = e2
    return est, dead, swaps, nf


def execute(plan):
    setup()
    own_entropy(plan["run_seed"])
    # private copies: a defect that writes into caller arrays must never alter the plan itself
    pool = {k: (v.copy() if isinstance(v, np.ndarray) else v) for k, v in plan["pool"].items()}
    meta = plan["meta"]
    log = EventLog()
    counters = {}
    cov_parts = {"trigrams": set(), "faults": set()}

    def bump(k, n=1):
        counters[k] = counters.get(k, 0) + n

    states = {}
    ctor_failure = None
    for c in plan["clients"]:
        try:
            states[c["id"]] = ClientState(c, pool)
        except Exception as e:  # noqa: BLE001 - the constructor route of a registration failed
            ctor_failure = Violation(ID, "registration_failed",
                                     f"ReceptorEstimator(...) with valid constructor arguments "
                                     f"{c['ctor']} raised {type(e).__name__}: {str(e)[:120]}",
                                     op={"m": "constructor"}, client=c["id"],
                                     exc=type(e).__name__).as_dict()
            break
    if ctor_failure is not None:
        return {"violation": ctor_failure, "digest": log.digest(), "steps": 0,
                "counters": counters, "cov": [], "nontrivial": False}
    for cs0 in states.values():
        for op0 in cs0.muts:
            sym_apply(cs0.sym, op0, meta)
        if cs0.muts:
            bump("reach:constructor_registrations", len(cs0.muts))
    pool_fp = {k: fingerprint(v) for k, v in pool.items() if isinstance(v, np.ndarray)}
    violation = None
    steps = 0
    tot_dead = tot_swaps = 0

    def check_pool(where):
        for k, fp in pool_fp.items():
            if fingerprint(pool[k]) != fp:
                raise Violation(ID, "caller_array_modified",
                                f"array {k!r} supplied by the caller was modified by {where}",
                                array=k, where=where)

    use_pristine = bool(plan.get("pristine", False))

    def compare_pristine(cs, queries, answers, where, nf=None, n_src=None):
        from sim import pristine
        if nf is None:
            nf, _, _ = normal_form(cs.muts)
            n_src = cs.sym.n_src
        qs = [{k: v for k, v in q.items() if k != "fault"} for q in queries]
        refs = pristine.client().call("checks.c14", "pristine_battery", plan["pool"], meta,
                                      cs.client, nf, qs, n_src)
        bump("pristine_process_references", len(qs))
        for q, r_h, r_p in zip(qs, answers, refs):
            rt, at = tol_for(q)
            ok, d, why = compare(r_h, r_p, rt, at)
            if not ok:
                # a decision sitting on a boundary to the last ulp can come out differently in
                # another process image (BLAS kernels round differently for differently aligned
                # arrays); a real difference survives asking a fresh copy of the history object
                # in this process again
                try:
                    qp = dict(pool, **derive_args(copy.deepcopy(cs.nf_master), pool, meta, n_src))
                    r_again = call(run_query, copy.deepcopy(cs.est), q, qp, n_src)
                    if where == "final battery" and compare(r_again, r_p, rt, at)[0]:
                        bump("ulp_borderline_mismatch_not_confirmed")
                        ok = True
                except Exception:  # noqa: BLE001
                    pass
            if not ok:
                raise Violation(ID, "answer_differs_from_pristine_process",
                                f"{q['q']}{q.get('a', {})} ({where}) differs from the same "
                                f"normal form replayed in a process where dreye was never called "
                                f"before: {why}",
                                query=q, where=where, client=cs.client["id"])

    def compare_query(cs, q, where, faulted_outcome=None, overlay=None):
        """Run q on the history object and on a fresh copy of the normal-form object."""
        n_src = cs.sym.n_src
        ref_obj = copy.deepcopy(cs.nf_master)
        qpool = pool
        if any(v in ("Bin?", "npin?") for v in q.get("a", {}).values() if isinstance(v, str)):
            qpool = dict(pool, **derive_args(copy.deepcopy(cs.nf_master), pool, meta, n_src))
        if overlay is not None:
            qpool = dict(qpool, **overlay)
        g0 = process_state()     # taken before either object runs the query
        r_ref = call(run_query, ref_obj, q, qpool, n_src)
        if faulted_outcome is None:
            r_h = call(run_query, cs.est, q, qpool, n_src)
            g1 = process_state()
            if g0 != g1:
                raise Violation(ID, "query_changed_process_state",
                                f"{q['q']} changed process-global settings that later answers "
                                f"depend on (warning filters / numpy error state): "
                                f"{[k_ for k_ in g0 if g0[k_] != g1[k_]]}",
                                query=q, where=where, client=cs.client["id"])
        else:
            r_h = faulted_outcome
        check_pool(f"query {q['q']} ({where})")
        log.add(cs.client["id"], "q:" + q["q"], r_h)
        rt, at = tol_for(q)
        ok, d, why = compare(r_h, r_ref, rt, at)
        if not ok and faulted_outcome is None:
            # BLAS kernels may round differently for differently aligned (copied) arrays, which
            # can flip a decision that sits on a boundary to the last ulp.  A real difference in
            # registered state survives copying the history object; an alignment artefact of
            # one particular pair of objects does not: ask a copy of each side again.
            r_h2 = call(run_query, copy.deepcopy(cs.est), q, qpool, n_src)
            r_ref2 = call(run_query, copy.deepcopy(cs.nf_master), q, qpool, n_src)
            ok2, _, _ = compare(r_h2, r_ref2, rt, at)
            ok3, _, _ = compare(r_h2, r_ref, rt, at)
            if ok2 or ok3:
                bump("ulp_borderline_mismatch_not_confirmed")
                ok = True
        explicit_B = q.get("a", {}).get("B") is not None and q["q"] not in ("props",) \
            and q.get("a", {}).get("model") != "excitation"      # (seconds per call)
        if ok and faulted_outcome is None and explicit_B and cs.sym.has_tgt and \
                not cs.sym.has_W and cs.nf_not is not None:
            # a query with explicit targets reads neither the registered targets nor - when
            # they were registered without per-sample weights - anything that came with them:
            # its answer must be that of an estimator on which no targets were ever registered
            r_not = call(run_query, copy.deepcopy(cs.nf_not), q, qpool, n_src)
            bump("explicit_target_queries_vs_no_targets_reference")
            ok_n, _, why_n = compare(r_h, r_not, rt, at)
            if not ok_n:
                r_not2 = call(run_query, copy.deepcopy(cs.nf_not), q, qpool, n_src)
                r_h2 = call(run_query, copy.deepcopy(cs.est), q, qpool, n_src)
                if not compare(r_h2, r_not2, rt, at)[0]:
                    raise Violation(ID, "explicit_query_depends_on_registered_targets",
                                    f"{q['q']}{q.get('a', {})} with explicit targets answers "
                                    f"differently on an estimator whose registered targets (no "
                                    f"per-sample weights) were never registered: {why_n}",
                                    query=q, where=where, client=cs.client["id"])
        if not ok:
            raise Violation(ID, "answer_differs_from_normal_form",
                            f"{q['q']}{q.get('a', {})} after history of {len(cs.muts)} mutators "
                            f"differs from its normal-form replay: {why}",
                            query=q, where=where, client=cs.client["id"])
        return r_h, r_ref

    try:
        # initial reference objects
        for cs in states.values():
            cs.nf_master, _, _, _ = build_nf(cs, pool, meta)
        for step, cid in enumerate(plan["schedule"]):
            cs = states[cid]
            if not cs.alive or cs.pos >= len(cs.client["ops"]):
                continue
            op = cs.client["ops"][cs.pos]
            cs.pos += 1
            steps += 1
            if "px" in op:
                ambient_perturb(op["k"])
                bump("fault:rng_perturb")
                cov_parts["faults"].add("rng_perturb")
                log.add(cid, "x:rng_perturb", op["k"])
                continue
            if "m" in op and op.get("reject"):
                # a registration the library must reject; whatever it does, a call that raised
                # has registered nothing, so every answer must be what it was before
                op_call = {k_: v_ for k_, v_ in op.items() if k_ != "reject"}
                out = call(apply_mutator, cs.est, op_call, pool)
                check_pool(f"rejected {op['m']}")
                log.add(cid, "m!:" + op["m"], out)
                if out.ok:
                    # the tree under test accepts these arguments: it registered something this
                    # model does not describe; stop following this client (not a C14 matter)
                    cs.alive = False
                    bump("rejected_registration_was_accepted")
                    continue
                bump("fault:rejected_registration")
                cov_parts["faults"].add("rejected_registration")
                for bq in plan["battery"]:
                    compare_query(cs, bq, f"battery after rejected {op['m']} at step {step}")
                continue
            if "m" in op:
                s2 = cs.sym.copy()
                if not sym_apply(s2, op, meta):
                    # only reachable from a hand-edited / minimised plan
                    raise ValueError(f"plan invalid at client {cid} op {cs.pos - 1}: {op}")
                explicit = None
                if op["m"] == "fit" and cs.nf_master is not None:
                    # "If None, the registered B is used": the same fit with the currently
                    # registered targets passed explicitly, on a copy of the reference object
                    # "the registered B": what the object currently holds as B, or - an equally
                    # defensible reading after an earlier fit - the targets as they were
                    # registered; the internal call must agree with one of the two
                    explicit = []
                    cands = [np.array(cs.nf_master.B, copy=True)]
                    tB = getattr(cs.nf_master, "target_B", None)
                    if tB is not None and not np.array_equal(np.asarray(tB), cands[0]):
                        cands.append(np.array(tB, copy=True))
                    for Bcur in cands:
                        ro = copy.deepcopy(cs.nf_master)
                        if op.get("how", "fit") == "mv":
                            explicit.append(call(lambda: tuple(ro.minimize_variance(Bcur)[:2])))
                        else:
                            explicit.append(call(lambda: tuple(ro.fit(Bcur))))
                out = call(apply_mutator, cs.est, op, pool)
                check_pool(f"mutator {op['m']}")
                log.add(cid, "m:" + op["m"], out)
                if out.ok and explicit and all(e.ok for e in explicit):
                    got = Outcome("ok", (np.asarray(cs.est.X), np.asarray(cs.est.B)))
                    cmp_ = [compare(got, e, *TOL_SOLVER) for e in explicit]
                    ok_ = any(c_[0] for c_ in cmp_)
                    why_ = cmp_[0][2]
                    bump("internal_vs_explicit_fit_checks")
                    if not ok_:
                        raise Violation(ID, "internal_fit_differs_from_explicit_fit",
                                        f"{'minimize_variance()' if op.get('how') == 'mv' else 'fit()'}"
                                        f" on the registered targets stored another result than "
                                        f"the same call with those targets passed explicitly: "
                                        f"{why_}", op=op, client=cid)
                if not out.ok:
                    if op["m"] == "fit":
                        # a solver failure inside fit(): compare with the normal form, then
                        # end this client's history (state after a failed mutator is unspecified)
                        ref = copy.deepcopy(cs.nf_master)
                        r2 = call(apply_mutator, ref, op, pool)
                        if r2.ok:
                            raise Violation(ID, "mutator_fails_only_after_history",
                                            f"fit() raised {out.brief()} after the history but "
                                            "succeeds on its normal-form replay", op=op, client=cid)
                        cs.alive = False
                        bump("history_ended_by_failed_fit")
                        continue
                    raise Violation(ID, "registration_failed",
                                    f"{op['m']} with valid arguments raised {out.brief()}",
                                    op=op, client=cid, exc=out.value)
                cs.sym = s2
                cs.muts.append(op)
                if len(cs.muts) >= 3:
                    cov_parts["trigrams"].add(tuple(o["m"] for o in cs.muts[-3:]))
                try:
                    cs.nf_master, dead, swaps, nf = build_nf(cs, pool, meta)
                except Exception as e:  # noqa: BLE001
                    raise Violation(ID, "normal_form_replay_failed",
                                    f"history succeeded but its normal form raised "
                                    f"{type(e).__name__}: {e}", client=cid)
                cs.nf_info = (dead, swaps)
                # cheap battery after every mutator - except in runs with a sparse observation
                # schedule, where most steps go unobserved so that anything computed lazily on
                # first access is not frozen by the observer
                ob = plan.get("observe")
                if ob is not None and step < len(ob) and not ob[step]:
                    bump("steps_not_observed")
                    continue
                for q in plan["battery"]:
                    compare_query(cs, q, f"battery after step {step}")
                    bump("battery_probes")
                fe = plan.get("full_battery_every", 0)
                if fe and len(cs.muts) % fe == 0:
                    for q in plan["full_battery"]:
                        compare_query(cs, q, f"full battery after step {step}")
                        bump("battery_probes")
                continue
            # ---- query op (possibly faulted) ----
            q = op
            fault = q.get("fault")
            if fault is None:
                r_h, _ = compare_query(cs, q, f"step {step}")
                bump("history_queries")
                if use_pristine and len(cs.pending) < 10:
                    cs.pending.append((normal_form(cs.muts)[0], q, r_h, cs.sym.n_src, step))
                continue
            n_src = cs.sym.n_src
            kind = fault["kind"]
            ov = derive_args(copy.deepcopy(cs.nf_master), pool, meta, n_src)
            pool_f = dict(pool, **ov)
            # learn the call's crash points / solve count on a reference copy
            probe_obj = copy.deepcopy(cs.nf_master)
            with SolveSeam() as seam0, LineInterrupter(None) as li0:
                call(run_query, probe_obj, q, pool_f, n_src)
            n_lines, n_solves = li0.count, seam0.count
            fired = False
            allowed = ()
            if kind == "line_interrupt":
                # a sweep of `count` crash points spread over the call, each one an aborted
                # query on the *same* history object; the cheap battery is checked after each
                cnt = int(fault.get("count", 1))
                pts = []
                if n_lines and cnt == 0:      # 0 = every crash point of the call (capped)
                    stride = max(1, -(-n_lines // 150))
                    pts = list(range(int(fault["frac"] * stride) % stride, n_lines, stride))
                elif n_lines:
                    for j in range(cnt):
                        pts.append(int(((fault["frac"] + j / cnt) % 1.0) * n_lines))
                r_h = None
                for j, n in enumerate(pts or [None]):
                    with LineInterrupter(n) as li:
                        try:
                            r_h = call(run_query, cs.est, q, pool_f, n_src)
                        except SimInterrupt:
                            r_h = Outcome("exc", "SimInterrupt")
                    if li.fired_at is not None:
                        fired = True
                        bump(f"crash:{li.fired_at[0]}:{li.fired_at[1]}")
                        bump("fault:line_interrupt")
                        if j < len(pts) - 1:
                            check_pool(f"aborted query {q['q']}")
                            log.add(cid, "q!:" + q["q"], r_h)
                            for bq in MINI_BATTERY:
                                compare_query(cs, bq, f"battery after aborted {q['q']} "
                                                      f"(crash point {n}/{n_lines}) at step {step}")
                if fired:
                    bump("fault:line_interrupt", -1)   # the generic bump below counts the last one
                allowed = ("SimInterrupt",)
            elif kind == "solver_error":
                k = fault["k"] % n_solves if n_solves else 0
                with SolveSeam(fail_at={k}) as seam:
                    r_h = call(run_query, cs.est, q, pool_f, n_src)
                fired = seam.fired > 0
                allowed = ("SolverError", "RuntimeError")
            elif kind == "warnings_as_errors":
                with WarningsAsErrors():
                    r_h = call(run_query, cs.est, q, pool_f, n_src)
                fired = (not r_h.ok)
                allowed = ("*Warning",)
            elif kind == "errstate_raise":
                with ErrstateRaise():
                    r_h = call(run_query, cs.est, q, pool_f, n_src)
                fired = (not r_h.ok) and r_h.value == "FloatingPointError"
                allowed = ("FloatingPointError",)
            else:
                raise KeyError(kind)
            if fired:
                bump("fault:" + kind)
                cov_parts["faults"].add(kind)
            else:
                bump("fault_not_fired:" + kind)
            bump("history_queries")
            excused = (not r_h.ok) and any(
                (r_h.value == a) or (a == "*Warning" and r_h.value.endswith("Warning"))
                for a in allowed)
            if kind in ("warnings_as_errors", "errstate_raise") and not excused:
                # numpy / scipy / cvxpy take other internal paths under a changed warning filter
                # or error state (a FloatingPointError caught inside a library turns a borderline
                # hull test around), so the outcome of the call that ran under the altered
                # setting is not judged; every later answer is
                bump("faulted_query_outcome_not_judged:" + kind)
                excused = True
            if excused:
                # the faulted query may fail; everything after it is checked as usual
                check_pool(f"aborted query {q['q']}")
                log.add(cid, "q!:" + q["q"], r_h)
                # purity under interruption: the cheap battery must still agree right now
                for bq in plan["battery"]:
                    compare_query(cs, bq, f"battery after aborted {q['q']} at step {step}")
                continue
            compare_query(cs, q, f"step {step} (fault {kind} did not abort)", faulted_outcome=r_h,
                          overlay=ov)
        # ---- end of schedule: full battery on every client ----
        for cs in states.values():
            if not cs.alive:
                continue
            answers = []
            for q in plan["battery"] + plan["full_battery"]:
                r_h, _ = compare_query(cs, q, "final battery")
                answers.append(r_h)
                bump("battery_probes")
            if use_pristine:
                compare_pristine(cs, plan["battery"] + plan["full_battery"], answers,
                                 "final battery")
        # every unfaulted history query against the normal form *of its own moment* replayed in
        # a pristine process (one fork per query: module-level state left behind by one request
        # must not reach the reference of another)
        if use_pristine:
            for cs in states.values():
                for nf_then, q, r_h, n_src_then, step_then in cs.pending:
                    compare_pristine(cs, [q], [r_h], f"step {step_then}", nf=nf_then,
                                     n_src=n_src_then)
    except Violation as v:
        violation = v.as_dict()

    for cs in states.values():
        tot_dead += cs.nf_info[0]
        tot_swaps += cs.nf_info[1]
    bump("reach:dead_writes_eliminated", tot_dead)
    bump("reach:commuting_swaps", tot_swaps)
    for cs in states.values():
        kinds = [o["m"] for o in cs.muts]
        if kinds.count("fit") >= 2:
            bump("reach:fit_twice")
        adds = sum(1 for o in cs.muts if o.get("add"))
        if adds >= 2:
            bump("reach:add_chain_ge2")
        seen_t = False
        for o in cs.muts:
            if o["m"] == "register_targets":
                seen_t = True
            if o["m"] == "register_system" and seen_t:
                bump("reach:system_replaced_under_targets")
                break
    if len(states) > 1:
        bump("reach:multi_client_runs")
    nontrivial = (tot_dead + tot_swaps) > 0 or bool(cov_parts["faults"])
    if plan["mode"] == "exh":
        bump("exhaustive_sequences_executed")
    regclass = []
    for cs in states.values():
        last = {}
        for o in cs.muts:
            last[o["m"]] = o
        regclass.append((
            (last.get("register_adaptation") or {}).get("K", "-")[:2],
            (last.get("register_baseline") or {}).get("baseline", "-")[:2],
            cs.sym.n_src, meta["n_rec"], cs.sym.has_tgt, "fit" in last, meta["kind"]))
    cov = [(len(states), tuple(sorted(cov_parts["trigrams"]))[:6], tot_dead, tot_swaps,
            tuple(regclass), tuple(sorted(cov_parts["faults"])))]
    return {"violation": violation, "digest": log.digest(), "steps": steps, "counters": counters,
            "cov": cov, "nontrivial": nontrivial}


# ----------------------------------------------------------------------------
# minimisation / reporting helpers
# ----------------------------------------------------------------------------

def plan_size(plan):
    return sum(len(c["ops"]) for c in plan["clients"]) + len(plan.get("full_battery", []))


def _rebuild(plan, clients):
    p = dict(plan)
    p["clients"] = clients
    sched = []
    # keep relative interleaving: walk the old schedule, emit ids that still have ops left
    left = {c["id"]: len(c["ops"]) for c in clients}
    for cid in plan["schedule"]:
        if left.get(cid, 0) > 0:
            sched.append(cid)
            left[cid] -= 1
    for cid, n in left.items():
        sched += [cid] * n
    p["schedule"] = sched
    return p


def candidates(plan):
    meta = plan["meta"]
    clients = plan["clients"]
    # drop a whole client
    if len(clients) > 1:
        for i in range(len(clients)):
            yield _rebuild(plan, clients[:i] + clients[i + 1:])
    # drop the tail / chunks / single ops of one client
    for ci, c in enumerate(clients):
        ops = c["ops"]
        n = len(ops)
        sizes = [s for s in (n // 2, n // 4, 2, 1) if s >= 1]
        seen = set()
        for s in sizes:
            for start in range(0, n, s):
                key = (start, min(n, start + s))
                if key in seen:
                    continue
                seen.add(key)
                new_ops = ops[:key[0]] + ops[key[1]:]
                if not valid_history(ctor_ops(c) + new_ops, meta):
                    continue
                c2 = dict(c)
                c2["ops"] = new_ops
                yield _rebuild(plan, clients[:ci] + [c2] + clients[ci + 1:])
    # drop faults
    for ci, c in enumerate(clients):
        for oi, op in enumerate(c["ops"]):
            if "fault" in op:
                o2 = {k: v for k, v in op.items() if k != "fault"}
                c2 = dict(c)
                c2["ops"] = c["ops"][:oi] + [o2] + c["ops"][oi + 1:]
                yield _rebuild(plan, clients[:ci] + [c2] + clients[ci + 1:])
    # shrink batteries
    if plan.get("full_battery"):
        fb = plan["full_battery"]
        for i in range(len(fb)):
            p = dict(plan)
            p["full_battery"] = fb[:i] + fb[i + 1:]
            yield p
    if plan.get("full_battery_every"):
        p = dict(plan)
        p["full_battery_every"] = 0
        yield p
    if plan.get("pristine"):
        p = dict(plan)
        p["pristine"] = False
        yield p
    if plan.get("observe") is not None:
        p = dict(plan)
        p["observe"] = None
        yield p
    if len(plan.get("battery", [])) > 0:
        b = plan["battery"]
        for i in range(len(b)):
            p = dict(plan)
            p["battery"] = b[:i] + b[i + 1:]
            yield p
    # simplify the constructor
    for ci, c in enumerate(clients):
        for key in ("w", "K", "baseline", "sources"):
            if c["ctor"].get(key):
                ct = dict(c["ctor"])
                ct[key] = None
                if key == "sources":
                    ct["lb"] = ct["ub"] = None
                c2 = dict(c)
                c2["ctor"] = ct
                if valid_history(ctor_ops(c2) + c2["ops"], meta):
                    yield _rebuild(plan, clients[:ci] + [c2] + clients[ci + 1:])


def signature(plan, vio):
    d = vio.get("detail", {})
    s = {"class": vio["class"]}
    if "query" in d:
        s["query"] = d["query"].get("q")
    if "op" in d:
        s["op"] = d["op"].get("m")
    if "exc" in d:
        s["exc"] = d["exc"]
    if "array" in d:
        s["array_kind"] = "".join(ch for ch in d["array"] if not ch.isdigit())
    return s


def sample_repr(plan):
    return {
        "run_seed": plan["run_seed"], "mode": plan["mode"],
        "config": {k: plan["meta"][k] for k in ("kind", "n_rec", "n_dom", "n_rows")},
        "n_src_of_source_sets": plan["meta"]["n_src"],
        "schedule": plan["schedule"],
        "clients": [[(o.get("m") or o.get("q") or o.get("px")) +
                     ("!" + o["fault"]["kind"] if "fault" in o else "")
                     for o in c["ops"]] for c in plan["clients"]],
        "first_client_ops_full": plan["clients"][0]["ops"][:6],
    }


def extra_evidence(results):
    pts = {}
    for r in results:
        for k, v in r.get("counters", {}).items():
            if k.startswith("crash:"):
                pts[k[6:]] = pts.get(k[6:], 0) + v
    n_exh = sum(r.get("counters", {}).get("exhaustive_sequences_executed", 0) for r in results)
    return {"exhaustive_short_histories": {
                "alphabet": len(EXH_ALPHABET), "executed": n_exh,
                "all_valid_sequences_up_to_length_2": len(exh_sequences(2)),
                "note": "every valid sequence over the 15-variant mutator alphabet (from an empty "
                        "estimator and after a register_system prefix) with seeded payloads; "
                        "length <= 2 in the quick tier, <= 3 in the thorough tier"},
            "distinct_crash_points_hit": len(pts),
            "crash_points_by_file": {f: sum(1 for k in pts if k.startswith(f + ":"))
                                     for f in sorted({k.rsplit(":", 1)[0] for k in pts})},
            "nf_table": NF_TABLE,
            "tolerances": {"non_solver": TOL_PLAIN, "solver_backed": TOL_SOLVER}}


# ----------------------------------------------------------------------------
# sensitivity canaries (textual mutations applied to a scratch copy only)
# ----------------------------------------------------------------------------

_E = "api/estimator.py"
CANARIES = [
    ("cache_P_in_get_P_from_A", [(_E,
        "        P = get_P_from_A(\n            self.A, self.lb, self.ub, \n            K=(self.K if relative else None), \n            baseline=(self.baseline if relative else None), \n            bounded=bounded\n        )\n        if remove_zero:",
        "        _key = (relative, bool(bounded))\n        if not hasattr(self, '_Pcache'):\n            self._Pcache = {}\n        if _key not in self._Pcache:\n            self._Pcache[_key] = get_P_from_A(\n                self.A, self.lb, self.ub, \n                K=(self.K if relative else None), \n                baseline=(self.baseline if relative else None), \n                bounded=bounded\n            )\n        P = self._Pcache[_key]\n        if remove_zero:")]),
    ("bake_K_into_A", [(_E,
        "        self.A = self.capture(sources, domain=domain).T\n",
        "        self.A = self.capture(sources, domain=domain).T\n        self._A_rel = apply_linear_transform(self.A, self.K, self.baseline)[0]\n"),
        (_E,
        "        B = self.system_capture(X)\n        return self._relative_capture(B)",
        "        X = np.asarray(X)\n        if self.K.ndim <= 1:\n            return X @ self._A_rel.T + self.baseline * self.K\n        return X @ self._A_rel.T + self.K @ np.broadcast_to(self.baseline, (self.K.shape[0],))")]),
    ("K_inplace_add", [(_E,
        "        if add:\n            self.K = self.K + 1 / qb\n",
        "        if add:\n            self.K += 1 / qb\n")]),
    ("bounds_ignore_ub_when_lb_given", [(_E,
        "        if ub is not None:\n            self.ub = ub_\n",
        "        if ub is not None and lb is None:\n            self.ub = ub_\n")]),
    ("register_system_keeps_old_bounds", [(_E,
        "        self.lb, self.ub = ensure_bounds(lb, ub, self.sources.shape[0])\n",
        "        _lb, _ub = ensure_bounds(lb, ub, self.sources.shape[0])\n        if ub is None and hasattr(self, 'ub') and self.ub.shape == _ub.shape:\n            _ub = self.ub\n        self.lb, self.ub = _lb, _ub\n")]),
    ("targets_alias_and_fit_inplace", [(_E,
        "        self.B = self.target_B.copy()\n",
        "        self.B = self.target_B\n"),
        (_E,
        "        if internal:\n            self.X = X\n            self.B = B\n            return self\n        return X, B\n    \n    def fit_adaptive(",
        "        if internal:\n            self.X = X\n            self.B[...] = B\n            return self\n        return X, B\n    \n    def fit_adaptive(")]),
    ("dist_scaling_drops_copy", [(_E,
        "        # replace zero point with neutral point\n        B = B.copy()\n",
        "        # replace zero point with neutral point\n")]),
    ("in_hull_stores_B", [(_E,
        "        # normalized does it within the l1-normalized simplex\n        if normalized:",
        "        self.B = np.asarray(B)\n        # normalized does it within the l1-normalized simplex\n        if normalized:")]),
    ("fit_explicit_remembers_W", [(_E,
        "        else:\n            internal = False\n        # linear (gaussian, poisson), excitation, nonlinear\n",
        "        else:\n            internal = False\n            self.W = np.broadcast_to(self.w, np.shape(B))\n        # linear (gaussian, poisson), excitation, nonlinear\n")]),
    ("query_sets_K_temporarily", [(_E,
        "        bounded = np.all(np.isfinite(self.ub))\n        P = self._get_P_from_A(relative=relative, bounded=bounded)\n        if l1 is None:",
        "        bounded = np.all(np.isfinite(self.ub))\n        if relative:\n            P = self._get_P_from_A(relative=True, bounded=bounded)\n        else:\n            _K, _b = self.K, self.baseline\n            self.K, self.baseline = np.ones(1), np.zeros(1)\n            P = self._get_P_from_A(relative=True, bounded=bounded)\n            self.K, self.baseline = _K, _b\n        if l1 is None:")]),
    ("add_uses_K_seen_at_register_system", [(_E,
        "        self.A = self.capture(sources, domain=domain).T\n",
        "        self.A = self.capture(sources, domain=domain).T\n        self._Ksys = self.K\n"),
        (_E,
        "        if add:\n            self.K = self.K + 1 / qb\n",
        "        if add:\n            self.K = getattr(self, '_Ksys', self.K) + 1 / qb\n")]),
    ("system_adaptation_uses_stale_A", [(_E,
        "        self._assert_registered()\n        qb = self.system_capture(x)\n",
        "        self._assert_registered()\n        if not hasattr(self, '_A0'):\n            self._A0 = self.A\n        qb = np.asarray(x) @ self._A0.T if self._A0.shape == self.A.shape else self.system_capture(x)\n")]),
]
