"""Pristine-process reference: evaluate a function in a process in which the
library under test has been imported but *never called*.

A normal-form replay in the simulation process shares every module-level /
class-level object of dreye with the history-carrying estimator; a cache or
other hidden global state would poison both equally.  The pristine server is a
fresh interpreter that imports the check module (and with it dreye) and then,
for every request, forks a child that computes the answer and exits, so no
request ever sees state left behind by another.

protocol (stdin/stdout of the server, length-prefixed pickles):
    request  = (module, function, args)          reply = ("ok", value) | ("err", text)
"""
from __future__ import annotations

import os
import pickle
import struct
import subprocess
import sys

VERIF = os.path.dirname(os.path.dirname(os.path.abspath(__file__)))


def _read(f):
    hdr = f.read(8)
    if len(hdr) < 8:
        return None
    (n,) = struct.unpack("<Q", hdr)
    return pickle.loads(f.read(n))


def _write(f, obj):
    b = pickle.dumps(obj, protocol=pickle.HIGHEST_PROTOCOL)
    f.write(struct.pack("<Q", len(b)))
    f.write(b)
    f.flush()


def serve():
    import importlib
    fin = os.fdopen(os.dup(0), "rb")
    fout = os.fdopen(os.dup(1), "wb")
    # keep stray prints of libraries away from the protocol stream
    devnull = os.open(os.devnull, os.O_WRONLY)
    os.dup2(devnull, 1)
    mods = {}
    while True:
        req = _read(fin)
        if req is None:
            return 0
        mod, fn, args = req
        if mod not in mods:
            m = importlib.import_module(mod)
            m.setup()                      # imports dreye; calls nothing
            mods[mod] = m
        pid = os.fork()
        if pid == 0:
            try:
                try:
                    out = ("ok", getattr(mods[mod], fn)(*args))
                except BaseException as e:  # noqa: BLE001
                    import traceback
                    out = ("err", f"{type(e).__name__}: {e}\n{traceback.format_exc()[-1500:]}")
                _write(fout, out)
            finally:
                os._exit(0)
        os.waitpid(pid, 0)


class PristineClient:
    def __init__(self):
        self.proc = None
        self.calls = 0
        self.owner = os.getpid()

    def _alive(self):
        if self.proc is None:
            return False
        if os.getpid() != self.owner:
            return True        # inherited through fork: only the owner may poll its child
        return self.proc.poll() is None

    def _start(self):
        env = dict(os.environ)
        env["PYTHONDONTWRITEBYTECODE"] = "1"
        self.owner = os.getpid()
        self.proc = subprocess.Popen([sys.executable, "-m", "sim.pristine"], cwd=VERIF, env=env,
                                     stdin=subprocess.PIPE, stdout=subprocess.PIPE)

    def call(self, module, function, *args):
        for attempt in (0, 1):
            if not self._alive():
                self._start()
            try:
                _write(self.proc.stdin, (module, function, args))
                rep = _read(self.proc.stdout)
            except (BrokenPipeError, OSError):
                rep = None
            if rep is not None:
                break
            self.close()
        if rep is None:
            raise RuntimeError("pristine reference server died twice")
        self.calls += 1
        if rep[0] != "ok":
            raise RuntimeError("pristine reference failed: " + rep[1])
        return rep[1]

    def close(self):
        if self.proc is not None:
            try:
                self.proc.stdin.close()
                self.proc.wait(timeout=5)
            except Exception:  # noqa: BLE001
                self.proc.kill()
            self.proc = None


_client = None


def client() -> PristineClient:
    """One server per simulation worker.  A run executing in a forked child of the worker
    inherits the worker's client (and the pipes to its server) and uses it - children run one
    at a time; any other process gets its own."""
    global _client
    me = os.getpid()
    if _client is not None and _client_pid[0] != me and _client_pid[0] == os.getppid() \
            and _client.proc is not None:
        return _client
    if _client is None or _client_pid[0] != me:
        _client = PristineClient()
        _client_pid[0] = me
    return _client


def warm(own=False):
    """Start the server now (called by a process before it forks its first run).  own=True:
    never share an inherited server (pool workers are forked from the main process, which has
    one of its own: sixteen workers must not talk through one pipe)."""
    global _client
    if own and (_client is None or _client_pid[0] != os.getpid()):
        _client = PristineClient()
        _client_pid[0] = os.getpid()
    c = client()
    if not c._alive():
        c._start()
    return c


def reset_after_child_failure():
    """A child died while possibly in the middle of a request: drop the server so that the
    next run does not read a stale reply."""
    global _client
    if _client is not None and _client_pid[0] == os.getpid():
        _client.close()


_client_pid = [None]

if __name__ == "__main__":
    sys.exit(serve())
