"""Run the registered checks against the seeded changes kept under /verif/seeded.

For every /verif/seeded/<id>/ (patch.diff, demo.py, meta.json) a scratch copy of
/repo's working tree is made under a temp dir, the patch applied there, the
demonstration run on the clean copy (must pass) and on the patched copy (must
fail), and the property's check run against the patched copy through
DREYE_SRC.  /repo itself is never modified.  Results go to
/verif/seeded/RESULTS.json.

usage: python -m sim.seeded [--only ID ...] [--tier quick|thorough] [--runs N] [--jobs J]
"""
from __future__ import annotations

import argparse
import concurrent.futures as cf
import json
import os
import shutil
import subprocess
import sys
import tempfile
import time

from sim.runner import VERIF

PY = sys.executable
FAST = False      # --fast: stop each check at its first new violation, do not minimise
SEEDED = os.path.join(VERIF, "seeded")


def _copy_repo(dst, repo="/repo"):
    shutil.copytree(os.path.join(repo, "dreye"), os.path.join(dst, "dreye"),
                    ignore=shutil.ignore_patterns("__pycache__"))


def _demo(tree, demo):
    env = dict(os.environ, PYTHONPATH=tree, PYTHONDONTWRITEBYTECODE="1", MPLBACKEND="Agg")
    try:
        p = subprocess.run([PY, demo], cwd=tree, env=env, capture_output=True, text=True,
                           timeout=600)
        return p.returncode, (p.stdout + p.stderr)[-400:]
    except subprocess.TimeoutExpired:
        return -9, "timeout"


def _pytest_outcomes(tree):
    """{test id: outcome} of the repository's own suite run against `tree`."""
    shutil.copytree("/repo/tests", os.path.join(tree, "tests"),
                    ignore=shutil.ignore_patterns("__pycache__"), dirs_exist_ok=True)
    env = dict(os.environ, PYTHONPATH=tree, PYTHONDONTWRITEBYTECODE="1", MPLBACKEND="Agg")
    xml = os.path.join(tree, "junit.xml")
    subprocess.run([PY, "-m", "pytest", "-q", "-p", "no:cacheprovider", "--timeout=900",
                    "--continue-on-collection-errors", f"--junitxml={xml}", "tests"],
                   cwd=tree, env=env, capture_output=True, text=True, timeout=1800)
    import xml.etree.ElementTree as ET
    out = {}
    for tc in ET.parse(xml).getroot().iter("testcase"):
        bad = any(ch.tag in ("failure", "error") for ch in tc)
        out[f"{tc.get('classname')}::{tc.get('name')}"] = "fail" if bad else "pass"
    return out


def confirm(src_dir):
    """Independent confirmation of a candidate seeded change before it is kept:
    demo passes clean / fails patched, and the repository's suite is unchanged."""
    clean = tempfile.mkdtemp(prefix="seed_confirm_clean_")
    bad = tempfile.mkdtemp(prefix="seed_confirm_bad_")
    try:
        _copy_repo(clean)
        _copy_repo(bad)
        p = subprocess.run(["patch", "-p1", "-s", "-i", os.path.join(src_dir, "patch.diff")],
                           cwd=bad, capture_output=True, text=True)
        if p.returncode != 0:
            return {"ok": False, "why": "patch does not apply: " + (p.stdout + p.stderr)[-300:]}
        rc0, out0 = _demo(clean, os.path.join(src_dir, "demo.py"))
        rc1, out1 = _demo(bad, os.path.join(src_dir, "demo.py"))
        t0, t1 = _pytest_outcomes(clean), _pytest_outcomes(bad)
        diff = {k: (t0.get(k), t1.get(k)) for k in set(t0) | set(t1) if t0.get(k) != t1.get(k)}
        ok = rc0 == 0 and rc1 not in (0, -9) and not diff
        return {"ok": ok, "demo_clean_rc": rc0, "demo_patched_rc": rc1,
                "demo_patched_tail": out1[-200:], "tests_clean_pass": sum(v == "pass" for v in
                                                                          t0.values()),
                "tests_patched_pass": sum(v == "pass" for v in t1.values()), "tests_diff": diff}
    finally:
        shutil.rmtree(clean, ignore_errors=True)
        shutil.rmtree(bad, ignore_errors=True)


def evaluate(sid, tier, runs, check_override=None, workers=0):
    d = os.path.join(SEEDED, sid)
    meta = json.load(open(os.path.join(d, "meta.json")))
    cid = check_override or meta["property"]
    clean = tempfile.mkdtemp(prefix=f"seed_clean_{sid}_")
    bad = tempfile.mkdtemp(prefix=f"seed_bad_{sid}_")
    res = {"id": sid, "property": meta["property"], "check": cid, "title": meta.get("title")}
    try:
        _copy_repo(clean)
        _copy_repo(bad)
        p = subprocess.run(["patch", "-p1", "-s", "-i", os.path.join(d, "patch.diff")], cwd=bad,
                           capture_output=True, text=True)
        if p.returncode != 0:
            res["status"] = "patch_does_not_apply"
            res["detail"] = (p.stdout + p.stderr)[-400:]
            return res
        rc0, out0 = _demo(clean, os.path.join(d, "demo.py"))
        rc1, out1 = _demo(bad, os.path.join(d, "demo.py"))
        res["demo_clean_rc"], res["demo_patched_rc"] = rc0, rc1
        env = dict(os.environ, DREYE_SRC=bad, VERIF_REPLAY_DIR=os.path.join(bad, "replays"),
                   PYTHONDONTWRITEBYTECODE="1")
        if workers:
            env["VERIF_WORKERS"] = str(workers)
        cmd = [PY, "-m", "sim.runner", cid, "--tier", tier, "--no-selftest", "--no-evidence"]
        if FAST:
            cmd += ["--first", "--no-minimise"]
        if runs:
            cmd += ["--runs", str(runs)]
        t0 = time.time()
        q = subprocess.run(cmd, cwd=VERIF, env=env, capture_output=True, text=True, timeout=7200)
        res["check_rc"] = q.returncode
        res["check_wall_s"] = round(time.time() - t0, 1)
        lines = [ln for ln in q.stdout.splitlines() if ln.startswith("violation:")]
        res["violations"] = [ln[:300] for ln in lines[:3]]
        res["status"] = "caught" if (q.returncode == 1 and "VIOLATION property=" in q.stdout) \
            else ("harness_error" if q.returncode not in (0, 1) else "missed")
        if res["status"] != "caught":
            res["stderr_tail"] = q.stderr[-500:]
        return res
    finally:
        shutil.rmtree(clean, ignore_errors=True)
        shutil.rmtree(bad, ignore_errors=True)


def main():
    ap = argparse.ArgumentParser()
    ap.add_argument("--only", nargs="*")
    ap.add_argument("--tier", default="quick")
    ap.add_argument("--runs", type=int, default=0)
    ap.add_argument("--jobs", type=int, default=1)
    ap.add_argument("--check", default=None, help="run this check instead of meta.property")
    ap.add_argument("--out", default=None, help="write results here instead of RESULTS.json")
    ap.add_argument("--confirm", nargs="*", help="candidate directories to confirm (no check run)")
    ap.add_argument("--fast", action="store_true",
                    help="stop each check at its first new violation and skip minimisation")
    a = ap.parse_args()
    global FAST
    FAST = a.fast
    if a.confirm:
        for d in a.confirm:
            print(d, json.dumps(confirm(d)), flush=True)
        return 0
    ids = sorted(x for x in os.listdir(SEEDED) if os.path.isdir(os.path.join(SEEDED, x)))
    if a.only:
        ids = [i for i in ids if i in a.only]
    out = []
    workers = max(1, 16 // max(1, a.jobs))
    with cf.ThreadPoolExecutor(a.jobs) as ex:
        futs = [ex.submit(evaluate, i, a.tier, a.runs, a.check, workers if a.jobs > 1 else 0)
                for i in ids]
        for f in futs:
            r = f.result()
            print(json.dumps(r), flush=True)
            out.append(r)
    if (not a.only and not a.check) or a.out:
        with open(a.out or os.path.join(SEEDED, "RESULTS.json"), "w") as f:
            json.dump({"tier": a.tier, "verif_seed": int(os.environ.get("VERIF_SEED", "0")),
                       "fast": bool(a.fast), "note": "fast = each check stopped at its first new "
                       "violation and reported the un-minimised plan (the registered quick "
                       "commands always explore everything and minimise)",
                       "results": out}, f, indent=1)
            f.write("\n")
    caught = sum(1 for r in out if r["status"] == "caught")
    print(f"seeded changes caught {caught}/{len(out)}")
    return 0


if __name__ == "__main__":
    sys.exit(main())
