"""Greedy delta-debugging over plans.

A check supplies ``candidates(plan)`` - an iterator of strictly smaller plans
(drop a client, drop a chunk of ops, drop one op, drop a fault, simplify a
payload) - and ``fails(plan) -> violation-class or None``.  A candidate is kept
only when it fails with the *same* class as the original.
"""
from __future__ import annotations

import time


def minimise(plan, candidates, fails, want_cls, budget_s=60.0, max_tests=400):
    t0 = time.monotonic()  # wall-clock budget only bounds effort, never the verdict
    tests = 0
    progress = True
    while progress:
        progress = False
        for cand in candidates(plan):
            if tests >= max_tests or time.monotonic() - t0 > budget_s:
                return plan, tests
            tests += 1
            try:
                got = fails(cand)
            except Exception:  # noqa: BLE001 - a malformed candidate is simply rejected
                got = None
            if got == want_cls:
                plan = cand
                progress = True
                break
    return plan, tests
