"""C20 - irradiance <-> photon-flux conversion is the physical law and its exact inverse.

What a simulator can own here: the conversions run against ONE process-global, mutable
object - the application-wide pint registry `ureg` (spectral units, the 'flux' context
enabled at import, `pint.set_application_registry`).  Every other user of the process
shares it.  A run is therefore a *history*: conversion calls of a "converter" client
interleaved with a second client that perturbs the shared registry the way application
code legitimately does (enabling / disabling contexts - including 'flux' itself -, nesting
them, switching the default unit system and the default format), and with conversion
calls that are aborted at swept crash points or run under `-W error`.

Oracles after every step: (1) the value of every conversion equals the physical law
computed by the harness from the SI-2019 constants (no pint), for plain and unit-carrying
input, every prefix, every wavelength axis; (2) the reverse conversion of the result gives
the input back; (3) superposition of two spectra converts to the superposition;
(4) a conversion call - returned, raised or aborted - leaves the registry exactly as it
found it (active context stack, default system, default format).
"""
from __future__ import annotations

import os
import warnings

import numpy as np

from sim.kernel import (EventLog, Outcome, PlanRng, Violation, call, compare, fingerprint, sig)
from sim.seams import LineInterrupter, SimInterrupt, WarningsAsErrors, import_dreye, own_entropy

ID = "C20"
PANEL_PER_MODE = 4
PER_RUN_CAP = 300
WALL_CAP = {"quick": 240, "thorough": 3600}
MINIMISE_S = 30.0
MINIMISE_TOTAL_S = 120.0
MAX_REPORTS = 4

RULE = ("seeded histories of irr2flux / flux2irr calls (scalar, 1-D, 2-D, 3-D spectra with the "
        "wavelength on any axis; plain and unit-carrying spectra and wavelengths; prefixes '', "
        "milli, micro, nano; return_units None/True/False) interleaved with perturbations of "
        "the shared application registry (contexts enabled / disabled / nested, default system, "
        "default format) and with aborted / -W error conversion calls; distinct = distinct "
        "(set of (function, ndim, axis class, spectrum-unit class, wavelength-unit class, prefix, "
        "return_units) call shapes, registry states seen, fault kinds fired) keys; non-trivial = "
        "at least one conversion ran while the registry was not in its import-time state or "
        "after a fault fired")
ASSUMPTIONS = [
    "SI-2019 exact constants h, c, N_A in the harness-side law",
    "the registry's private attribute _active_ctx is used to fingerprint the context stack "
    "(pint 0.26); if absent the fingerprint degrades to default system / format only",
    "registry perturbations are limited to what can be undone (contexts, default system, default "
    "format), because worker processes are re-used across runs; unit re-definitions are not "
    "simulated",
    "sampled, not exhaustive",
]
COMPONENTS = {
    "real": ["dreye.api.units (imported from /repo working tree)", "pint UnitRegistry (the real "
             "application registry object)", "numpy"],
    "simulated": ["second client mutating the shared registry (seeded schedule)",
                  "interruption (sys.monitoring LINE events in /repo/dreye code)",
                  "warnings filter"],
    "reference_model": ["harness-side physical law from SI-2019 constants (no pint)"],
    "absent_in_code_under_test": ["clock", "network", "disk", "threads"],
}

H, C, NA = 6.62607015e-34, 299792458.0, 6.02214076e23
PREFIX = {None: 1.0, "": 1.0, "milli": 1e3, "micro": 1e6, "nano": 1e9}
# spectrum units: factor to the base unit of the direction (I = W/m^2/nm, E = mol/m^2/s/nm)
IRR_UNITS = {None: 1.0, "I": 1.0, "W/m^2/nm": 1.0, "mW/cm^2/nm": 10.0, "uW/cm^2/nm": 1e-2,
             "W/m^2/um": 1e-3, "spectral_irradiance": 1.0}
FLUX_UNITS = {None: 1.0, "E": 1.0, "microE": 1e-6, "umol/m^2/s/nm": 1e-6, "mol/m^2/s/nm": 1.0,
              "nmol/cm^2/s/nm": 1e-5, "spectral_photon_flux": 1.0}
WL_UNITS = {None: 1.0, "nm": 1.0, "um": 1e3, "m": 1e9}   # factor to nm

_dreye = None
_ureg = None


def setup():
    global _dreye, _ureg
    if _dreye is None:
        warnings.filterwarnings("ignore")
        _dreye = import_dreye()
        from dreye.api.units.pint import ureg
        _ureg = ureg
    return _dreye


def batches(tier):
    if tier == "quick":
        return [("clean", 500), ("faults", 300)]
    return [("clean", 30000), ("faults", 20000)]


# ----------------------------------------------------------------------------
# registry state
# ----------------------------------------------------------------------------

def reg_state():
    try:
        ctx = tuple(c.name for c in _ureg._active_ctx.contexts)
    except Exception:  # noqa: BLE001
        ctx = ("?",)
    try:
        fmt = _ureg.formatter.default_format
    except Exception:  # noqa: BLE001
        fmt = "?"
    return {"contexts": ctx, "default_system": str(_ureg.default_system), "default_format": fmt}


def reg_reset():
    _ureg.disable_contexts()
    _ureg.enable_contexts("flux")
    _ureg.default_system = "mks"
    try:
        _ureg.formatter.default_format = ""
    except Exception:  # noqa: BLE001
        pass


def reg_apply(op):
    k = op["r"]
    if k == "enable":
        _ureg.enable_contexts(op["name"])
    elif k == "disable_one":
        if reg_state()["contexts"]:
            _ureg.disable_contexts(1)
    elif k == "disable_all":
        _ureg.disable_contexts()
    elif k == "system":
        _ureg.default_system = op["name"]
    elif k == "format":
        _ureg.formatter.default_format = op["name"]
    else:
        raise KeyError(k)


# ----------------------------------------------------------------------------
# plan generation
# ----------------------------------------------------------------------------

def make_pool(rng: PlanRng):
    pool, meta = {}, {}
    n = rng.integers(2, 7)
    meta["n_wl"] = n
    wl = np.sort(rng.uniform(100.0, 2000.0, n))
    if rng.coin(0.3):
        wl = wl[rng.g.permutation(n)]          # unsorted wavelengths are as legal as sorted ones
    pool["wl"] = sig(wl)
    pool["wl0"] = float(sig(rng.uniform(100.0, 2000.0)))
    m1, m2 = rng.integers(1, 4), rng.integers(1, 3)
    meta["m1"], meta["m2"] = m1, m2
    lo, hi = rng.choice([(0.0, 5.0), (1e-6, 1e-3), (-2.0, 2.0), (1e2, 1e5)])
    pool["s0"] = float(sig(rng.uniform(lo, hi)))
    pool["s1a"] = sig(rng.uniform(lo, hi, n))
    pool["s1b"] = sig(rng.uniform(lo, hi, n))
    for ax in (0, 1):
        shp = [m1, m1]
        shp[ax] = n
        if m1 == n:
            shp[1 - ax] = n            # square: a wrong axis still "fits"
        pool[f"s2_{ax}"] = sig(rng.uniform(lo, hi, shp))
    for ax in (0, 1, 2):
        shp = [m2, m1, 2]
        shp[ax] = n
        pool[f"s3_{ax}"] = sig(rng.uniform(lo, hi, shp))
    pool["ab"] = sig(rng.uniform(-3.0, 3.0, 2))
    # integer-typed spectra / wavelengths (detector counts, nm as integers): same meaning
    hi_i = rng.choice([50, 4000, 60000])
    pool["i1"] = np.asarray(rng.g.integers(0, hi_i, n), dtype=np.int64)
    for ax in (0, 1):
        shp = [m1, m1]
        shp[ax] = n
        if m1 == n:
            shp[1 - ax] = n
        pool[f"i2_{ax}"] = np.asarray(rng.g.integers(0, hi_i, shp), dtype=np.int64)
    pool["wli"] = np.asarray(np.sort(rng.g.choice(np.arange(100, 2001), n, replace=False)),
                             dtype=np.int64)
    return pool, meta


def random_conv(rng: PlanRng, meta):
    fn = rng.choice(["irr2flux", "flux2irr"])
    shape = rng.choice(["s0", "s1", "s2", "s3"], p=[1, 3, 3, 2])
    op = {"c": fn, "wl": "wl", "axis": None}
    if shape == "s0":
        op["x"] = "s0"
        op["wl"] = rng.choice(["wl0", "wl"])
    elif shape == "s1":
        op["x"] = rng.choice(["s1a", "s1b"])
        op["axis"] = rng.choice([None, None, 0, -1])
    elif shape == "s2":
        ax = rng.integers(0, 1)
        op["x"] = f"s2_{ax}"
        op["axis"] = rng.choice([ax, ax - 2]) if (ax == 0 or rng.coin(0.6)) else None
    else:
        ax = rng.integers(0, 2)
        op["x"] = f"s3_{ax}"
        op["axis"] = rng.choice([ax, ax - 3]) if (ax != 2 or rng.coin(0.6)) else None
    units = IRR_UNITS if fn == "irr2flux" else FLUX_UNITS
    op["xu"] = rng.choice(list(units), p=[4] + [1] * (len(units) - 1))
    op["wu"] = rng.choice(list(WL_UNITS), p=[5, 2, 1, 1])
    op["prefix"] = rng.choice(list(PREFIX))
    op["ru"] = rng.choice([None, None, True, False])
    op["qroute"] = rng.choice(["mul", "ureg.Quantity", "pint.Quantity"], p=[2, 1, 1])
    # the documented irr_units= / flux_units= argument: the unit plain numbers are given in
    # (a quantity carries its own unit and is merely converted to it first)
    op["ua"] = rng.choice([None, None, None] + [u for u in units if u is not None])
    op["lin"] = rng.coin(0.25) and shape == "s1"
    if shape in ("s1", "s2", "s3") and rng.coin(0.15):
        # single-precision spectra (images) and wavelengths: the law in double precision of
        # the values actually handed over
        # (plain arrays only: a single-precision *quantity* is converted between units by pint
        # in single precision, which is the accuracy of the input, not a defect of the law)
        op["xdt"] = "float32"
        op["xu"] = None
        op["lin"] = False
        if rng.coin(0.6):
            op["wdt"] = "float32"
            op["wu"] = None
    elif shape in ("s1", "s2") and rng.coin(0.2):
        # integer-typed input: the integer payload of the same rank, cast at execution time
        op["x"] = "i1" if shape == "s1" else "i2" + op["x"][2:]
        op["xdt"] = rng.choice(["int64", "int32", "uint16", "list"])
        op["lin"] = False
        if rng.coin(0.5):
            op["wl"] = "wli"
            op["wdt"] = rng.choice(["int64", "uint16", "list"])
            op["wu"] = rng.choice([None, "nm"])
    return op


def random_reg(rng: PlanRng):
    return rng.choice([
        {"r": "enable", "name": "flux"}, {"r": "enable", "name": "sp"},
        {"r": "enable", "name": "Gaussian"}, {"r": "enable", "name": "chemistry"},
        {"r": "disable_one"}, {"r": "disable_all"},
        {"r": "system", "name": rng.choice(["cgs", "mks", "SI", "imperial"])},
        {"r": "format", "name": rng.choice(["~P", "", "~L", ".3f"])},
    ], p=[2, 2, 1, 1, 2, 2, 2, 1])


def generate(rs, mode, tier, index):
    rng = PlanRng(rs)
    pool, meta = make_pool(rng)
    n_ops = rng.integers(4, 24)
    reg_density = rng.choice([0.0, 0.2, 0.5])
    ops = []
    for _ in range(n_ops):
        if rng.coin(reg_density):
            ops.append(random_reg(rng))
            continue
        op = random_conv(rng, meta)
        if mode == "faults" and rng.coin(0.5):
            op["fault"] = {"kind": rng.choice(["line_interrupt", "line_interrupt",
                                               "warnings_as_errors"]),
                           "frac": float(sig(rng.random(), 4)),
                           "count": rng.choice([1, 3, 0], p=[2, 2, 3])}
        ops.append(op)
    return {"check": ID, "run_seed": rs, "mode": mode, "pool": pool, "meta": meta, "ops": ops,
            "fresh_process": rng.coin(0.5)}


# ----------------------------------------------------------------------------
# execution
# ----------------------------------------------------------------------------

RTOL = 1e-12


def law(fn, x_base, wl_nm):
    """x_base in I (W/m^2/nm) or E (mol/m^2/s/nm); wl in nm, broadcast on the last axis."""
    if fn == "irr2flux":
        return x_base * (wl_nm * 1e-9) / (H * C * NA)
    return x_base * (H * C * NA) / (wl_nm * 1e-9)


def cast(a, dt):
    if dt is None:
        return a
    if dt == "list":
        return np.asarray(a).tolist()
    return np.asarray(a).astype(dt)


def expected(op, pool, x=None):
    fn = op["c"]
    x = np.asarray(cast(pool[op["x"]], op.get("xdt")) if x is None else x).astype(float)
    wl = np.asarray(cast(pool[op["wl"]], op.get("wdt"))).astype(float)
    units = IRR_UNITS if fn == "irr2flux" else FLUX_UNITS
    xb = x * units[op["xu"] if op["xu"] is not None else op.get("ua")]
    wl_nm = wl * WL_UNITS[op["wu"]]
    ax = op["axis"]
    if ax is not None and xb.ndim:
        moved = np.moveaxis(xb, ax, -1)
        out = np.moveaxis(law(fn, moved, wl_nm), -1, ax)
    else:
        out = law(fn, xb, wl_nm)
    return out * PREFIX[op["prefix"]]


def do_conv(op, pool, x=None, strip=False):
    fn = getattr(_dreye, op["c"])
    x = cast(pool[op["x"]], op.get("xdt")) if x is None else x
    wl = cast(pool[op["wl"]], op.get("wdt"))
    def quantity(v, unit):
        # the three ways an application builds a quantity of the shared registry
        route = op.get("qroute", "mul")
        if route == "ureg.Quantity":
            return _ureg.Quantity(v, unit)          # wraps an ndarray without copying
        if route == "pint.Quantity":
            import pint
            return pint.Quantity(v, unit)           # application registry == dreye's ureg
        return v * _ureg(unit)

    if op["xu"] is not None:
        x = quantity(x, op["xu"])
    if op["wu"] is not None:
        wl = quantity(wl, op["wu"])
    kw = {}
    if op.get("ua") is not None:
        kw["irr_units" if op["c"] == "irr2flux" else "flux_units"] = op["ua"]
    r = fn(x, wl, return_units=op["ru"], prefix=op["prefix"], axis=op["axis"], **kw)
    return r


def out_unit(op):
    base = "E" if op["c"] == "irr2flux" else "spectralirradiance"
    return f"{op['prefix'] or ''}{base}"


def execute(plan):
    """Every run already starts from the library's import-time state (the runner forks a child
    per run, see sim.runner.isolated): module-level state warmed up by earlier runs cannot hide
    what a fresh process would show, and a violation replays from its plan alone."""
    return execute_here(plan)


def execute_here(plan):
    setup()
    own_entropy(plan["run_seed"])
    pool = {k: (v.copy() if isinstance(v, np.ndarray) else v) for k, v in plan["pool"].items()}
    log = EventLog()
    counters = {}
    shapes_seen, states_seen, faults_seen = set(), set(), set()
    violation = None
    steps = 0
    nontrivial = False

    def bump(k, n=1):
        counters[k] = counters.get(k, 0) + n

    pool_fp = {k: fingerprint(v) for k, v in pool.items() if isinstance(v, np.ndarray)}
    margin = [0.0]      # worst observed deviation from the law, in units of the tolerance

    def check_pool(where):
        for k, fp in pool_fp.items():
            if fingerprint(pool[k]) != fp:
                raise Violation(ID, "caller_array_modified",
                                f"array {k!r} supplied by the caller was modified by {where}",
                                array=k, where=where)

    def opclass(op):
        nd = np.ndim(pool[op["x"]])
        return {"fn": op["c"], "ndim": int(nd), "axis": op["axis"] is not None,
                "quantity": op["xu"] is not None, "wl_quantity": op["wu"] is not None,
                "int_input": op.get("xdt") is not None, "int_wl": op.get("wdt") is not None}

    def judge(op, r: Outcome, where, x=None):
        """Value oracle for one returned conversion."""
        cls = opclass(op)
        if not r.ok:
            raise Violation(ID, "conversion_raised",
                            f"{op['c']}(x={op['x']}[{op['xu']}], wl={op['wl']}[{op['wu']}], "
                            f"prefix={op['prefix']!r}, axis={op['axis']}, return_units={op['ru']}) "
                            f"raised {r.brief()} {where}", exc=r.value, **cls)
        v = r.value
        want_units = op["ru"] if op["ru"] is not None else (op["xu"] is not None)
        has_units = hasattr(v, "magnitude") and hasattr(v, "units")
        if has_units:
            one = (1.0 * v.units).to(out_unit(op)).magnitude
            if abs(one - 1.0) > 1e-12:
                raise Violation(ID, "wrong_unit",
                                f"{op['c']} returned units {v.units} where {out_unit(op)} was "
                                f"requested {where}", **cls)
            mag = np.asarray(v.magnitude, float)
        else:
            mag = np.asarray(v, float)
        if bool(want_units) != bool(has_units):
            raise Violation(ID, "unit_carrying_mismatch",
                            f"{op['c']}(return_units={op['ru']}, input "
                            f"{'with' if op['xu'] else 'without'} units) returned "
                            f"{'a quantity' if has_units else 'a plain array'} {where}", **cls)
        want_ = np.asarray(expected(op, pool, x), float)
        ok, d, why = compare(mag, want_, RTOL, 0.0)
        if ok and want_.size and np.all(np.isfinite(want_)) and mag.shape == want_.shape:
            den = RTOL * np.maximum(np.abs(want_), np.abs(mag))
            m_ = den > 0
            if np.any(m_):
                margin[0] = max(margin[0], float(np.max(np.abs(mag - want_)[m_] / den[m_])))
        if not ok:
            raise Violation(ID, "differs_from_physical_law",
                            f"{op['c']}(x={op['x']}[{op['xu']}], wl={op['wl']}[{op['wu']}], "
                            f"prefix={op['prefix']!r}, axis={op['axis']}) {where}: {why}", **cls)
        return mag

    def probe(where):
        """A fixed plain conversion in both directions: still the law, still each other's inverse."""
        for fnname in ("irr2flux", "flux2irr"):
            op = {"c": fnname, "x": "s1a", "wl": "wl", "xu": None, "wu": None, "prefix": None,
                  "ru": None, "axis": None}
            judge(op, call(do_conv, op, pool), where)
        bump("probe_conversions", 2)

    reg_reset()
    s_import = reg_state()
    try:
        for step, op in enumerate(plan["ops"]):
            steps += 1
            if "r" in op:
                out = call(reg_apply, op)
                log.add("reg", op["r"], op.get("name"), out)
                bump("registry_perturbations")
                states_seen.add(str(sorted(reg_state().items())))
                continue
            s0 = reg_state()
            if s0 != s_import:
                nontrivial = True
                bump("reach:conversion_under_perturbed_registry")
            if "flux" not in s0["contexts"]:
                bump("reach:conversion_with_flux_context_disabled")
            shapes_seen.add((op["c"], int(np.ndim(pool[op["x"]])), op["axis"] is not None,
                             op["xu"], op["wu"], op["prefix"], op["ru"]))
            fault = op.get("fault")
            where = f"at step {step} (registry {s0['contexts']}, {s0['default_system']})"
            if fault is None:
                r = call(do_conv, op, pool)
                log.add("conv", op["c"], r if not (r.ok and hasattr(r.value, "magnitude"))
                        else Outcome("ok", np.asarray(r.value.magnitude)))
                bump("conversions")
                s1 = reg_state()
                check_pool(f"{op['c']} {where}")
                if s1 != s0:
                    raise Violation(ID, "registry_changed_by_conversion",
                                    f"{op['c']} {where} left the application registry in another "
                                    f"state: {s0} -> {s1}", **opclass(op))
                mag = judge(op, r, where)
                # exact inverse: convert the result back (plain numbers, same prefix scale)
                inv = {"c": "flux2irr" if op["c"] == "irr2flux" else "irr2flux", "x": op["x"],
                       "wl": op["wl"], "xu": None, "wu": op["wu"], "prefix": None, "ru": False,
                       "axis": op["axis"], "wdt": op.get("wdt"), "qroute": op.get("qroute", "mul")}
                back = call(do_conv, inv, pool, x=mag / PREFIX[op["prefix"]])
                units = dict(IRR_UNITS if op["c"] == "irr2flux" else FLUX_UNITS)
                if op["xu"] is None:
                    units[None] = units[op.get("ua")]     # plain numbers in the stated unit
                if not back.ok:
                    raise Violation(ID, "conversion_raised",
                                    f"{inv['c']} of the result of {op['c']} raised {back.brief()} "
                                    f"{where}", exc=back.value, **opclass(inv))
                x_base = np.asarray(cast(pool[op["x"]], op.get("xdt"))).astype(float) * units[op["xu"]]
                if x_base.ndim == 0:      # a scalar spectrum against an array of wavelengths
                    x_base = np.broadcast_to(x_base, np.shape(back.value))
                ok, d, why = compare(np.asarray(back.value, float), x_base, 1e-12, 0.0)
                bump("roundtrips")
                if not ok:
                    raise Violation(ID, "not_inverse",
                                    f"{inv['c']}({op['c']}(x)) != x {where}: {why}",
                                    **opclass(op))
                if op.get("lin"):
                    a, b = pool["ab"]
                    mix = a * pool["s1a"] + b * pool["s1b"]
                    rm = call(do_conv, op, pool, x=mix)
                    o1 = dict(op, x="s1a")
                    o2 = dict(op, x="s1b")
                    m1 = judge(o1, call(do_conv, o1, pool), where)
                    m2 = judge(o2, call(do_conv, o2, pool), where)
                    mm = judge(op, rm, where, x=mix)
                    bump("superposition_checks")
                    scale = np.abs(a * m1) + np.abs(b * m2)
                    if not np.all(np.abs(mm - (a * m1 + b * m2)) <= 1e-12 * scale + 0.0):
                        raise Violation(ID, "not_linear",
                                        f"{op['c']}(a x + b y) != a {op['c']}(x) + b {op['c']}(y) "
                                        f"{where}", **opclass(op))
                continue
            # ---- faulted conversion ----
            kind = fault["kind"]
            if kind == "line_interrupt":
                with LineInterrupter(None) as li0:
                    call(do_conv, op, pool)
                n_lines = li0.count
                cnt = int(fault.get("count", 1))
                if n_lines and cnt == 0:
                    pts = list(range(n_lines))[:80]
                elif n_lines:
                    pts = [int(((fault["frac"] + j / cnt) % 1.0) * n_lines) for j in range(cnt)]
                else:
                    pts = []
                for n in pts:
                    with LineInterrupter(n) as li:
                        try:
                            r = call(do_conv, op, pool)
                        except SimInterrupt:
                            r = Outcome("exc", "SimInterrupt")
                    log.add("conv!", op["c"], n, r.kind)
                    if li.fired_at is None:
                        continue
                    bump("fault:line_interrupt")
                    bump(f"crash:{li.fired_at[0]}:{li.fired_at[1]}")
                    faults_seen.add("line_interrupt")
                    nontrivial = True
                    s1 = reg_state()
                    check_pool(f"aborted {op['c']}")
                    if s1 != s0:
                        raise Violation(ID, "registry_changed_by_aborted_conversion",
                                        f"{op['c']} aborted at crash point {n}/{n_lines} "
                                        f"({li.fired_at[0]}:{li.fired_at[1]}) {where} left the "
                                        f"application registry in another state: {s0} -> {s1}",
                                        **opclass(op))
                    probe(f"after {op['c']} aborted at crash point {n}/{n_lines}, step {step}")
            elif kind == "warnings_as_errors":
                with WarningsAsErrors():
                    r = call(do_conv, op, pool)
                log.add("conv!w", op["c"], r.kind)
                s1 = reg_state()
                if not r.ok and r.value.endswith("Warning"):
                    bump("fault:warnings_as_errors")
                    faults_seen.add("warnings_as_errors")
                    nontrivial = True
                else:
                    bump("fault_not_fired:warnings_as_errors")
                    judge(op, r, where + " under -W error")
                if s1 != s0:
                    raise Violation(ID, "registry_changed_by_aborted_conversion",
                                    f"{op['c']} under -W error {where} left the application "
                                    f"registry in another state: {s0} -> {s1}", **opclass(op))
                probe(f"after {op['c']} under -W error, step {step}")
            else:
                raise KeyError(kind)
    except Violation as v:
        violation = v.as_dict()
    finally:
        reg_reset()
    cov = [(tuple(sorted(map(str, shapes_seen)))[:8], tuple(sorted(states_seen))[:4],
            tuple(sorted(faults_seen)))]
    return {"violation": violation, "digest": log.digest(), "steps": steps, "counters": counters,
            "cov": cov, "nontrivial": nontrivial, "margin": margin[0]}


# ----------------------------------------------------------------------------
# minimisation / reporting helpers
# ----------------------------------------------------------------------------

def plan_size(plan):
    return len(plan["ops"])


def candidates(plan):
    ops = plan["ops"]
    n = len(ops)
    seen = set()
    for s in [s for s in (n // 2, n // 4, 2, 1) if s >= 1]:
        for start in range(0, n, s):
            key = (start, min(n, start + s))
            if key in seen:
                continue
            seen.add(key)
            p = dict(plan)
            p["ops"] = ops[:key[0]] + ops[key[1]:]
            yield p
    for i, op in enumerate(ops):
        if "fault" in op:
            p = dict(plan)
            p["ops"] = ops[:i] + [{k: v for k, v in op.items() if k != "fault"}] + ops[i + 1:]
            yield p
        if "c" in op:
            for key, simple in (("xu", None), ("wu", None), ("prefix", None), ("ru", None),
                                ("lin", False), ("xdt", None), ("wdt", None), ("qroute", "mul"),
                                ("ua", None)):
                if op.get(key) not in (simple,):
                    p = dict(plan)
                    p["ops"] = ops[:i] + [dict(op, **{key: simple})] + ops[i + 1:]
                    yield p


def signature(plan, vio):
    d = vio.get("detail", {})
    s = {"class": vio["class"]}
    for key in ("fn", "ndim", "axis", "quantity", "wl_quantity", "int_input", "int_wl", "exc"):
        if key in d:
            s[key] = d[key]
    return s


def sample_repr(plan):
    return {"run_seed": plan["run_seed"], "mode": plan["mode"], "config": plan["meta"],
            "ops": [(o.get("c") or "reg:" + o["r"]) + ("!" + o["fault"]["kind"] if "fault" in o
                                                        else "") for o in plan["ops"]],
            "first_ops_full": plan["ops"][:4]}


def extra_evidence(results):
    pts = {}
    for r in results:
        for k, v in r.get("counters", {}).items():
            if k.startswith("crash:"):
                pts[k[6:]] = pts.get(k[6:], 0) + v
    worst = max([r.get("margin", 0.0) for r in results] or [0.0])
    return {"distinct_crash_points_hit": len(pts), "crash_points": sorted(pts),
            "worst_deviation_from_law_in_units_of_tolerance": float(f"{worst:.3g}"),
            "tolerances": {"rtol_value": RTOL, "rtol_inverse": 1e-12, "rtol_superposition": 1e-12}}


# ----------------------------------------------------------------------------
# sensitivity canaries (scratch copies only)
# ----------------------------------------------------------------------------

_C = "api/units/convert.py"
CANARIES = [
    ("conversion_disables_contexts_and_restores_flux", [(_C,
        "    prefix = \"\" if prefix is None else prefix\n    if return_units is None:\n        if has_units(irradiance):",
        "    ureg.disable_contexts()\n    ureg.enable_contexts(*CONTEXTS)\n    prefix = \"\" if prefix is None else prefix\n    if return_units is None:\n        if has_units(irradiance):")]),
    ("context_enabled_around_body_without_finally", [(_C,
        "    # convert units\n    irradiance = optional_to(irradiance, irr_units) * ureg(irr_units)\n",
        "    # convert units\n    ureg.enable_contexts('sp')\n    irradiance = optional_to(irradiance, irr_units) * ureg(irr_units)\n"),
        (_C,
        "    if return_units:\n        return photonflux.to(f\"{prefix}E\")\n    else:\n        return photonflux.to(f\"{prefix}E\").magnitude\n",
        "    out = photonflux.to(f\"{prefix}E\")\n    ureg.disable_contexts(1)\n    if return_units:\n        return out\n    else:\n        return out.magnitude\n")]),
    ("base_units_depend_on_default_system", [(_C,
        "    if return_units:\n        return irradiance.to(f\"{prefix}spectralirradiance\")\n    else:\n        return irradiance.to(f\"{prefix}spectralirradiance\").magnitude\n",
        "    if return_units:\n        return irradiance.to(f\"{prefix}spectralirradiance\")\n    else:\n        return irradiance.to_base_units().magnitude * 1e-9 * {'': 1.0, 'milli': 1e3, 'micro': 1e6, 'nano': 1e9}[prefix]\n")]),
    ("wavelength_units_ignored", [(_C,
        "    irradiance = optional_to(irradiance, irr_units) * ureg(irr_units)\n    wavelengths = optional_to(wavelengths, \"nm\") * ureg(\"nm\")\n",
        "    irradiance = optional_to(irradiance, irr_units) * ureg(irr_units)\n    wavelengths = optional_to(wavelengths, None) * ureg(\"nm\")\n")]),
    ("prefix_dropped_for_plain_output", [(_C,
        "        return photonflux.to(f\"{prefix}E\").magnitude\n",
        "        return photonflux.to(\"E\").magnitude\n")]),
    ("flux2irr_axis_forgets_prefix", [(_C,
        "            return_units=return_units,\n            prefix=prefix,\n            flux_units=flux_units,\n",
        "            return_units=return_units,\n            flux_units=flux_units,\n")]),
]
