#!/bin/bash
# Determinism proof on a large sample: every run of the quick tier of each check is executed
# twice per VERIF_SEED - once with 16 workers, once with 5 workers under another PYTHONHASHSEED
# (fresh interpreters) - and the per-run event-log digests are diffed.
# usage: tools/determinism.sh <first_seed> <last_seed> [checks...]      exit 0 iff no digest differs
cd "$(dirname "$0")/.."
first=${1:-1}; last=${2:-3}; shift 2
checks=${@:-C02 C05 C11 C13 C14 C18 C20}
tmp=$(mktemp -d /tmp/verif_det_XXXX)
export VERIF_REPLAY_DIR=$tmp/replays
bad=0; total=0
for s in $(seq $first $last); do
  for c in $checks; do
    VERIF_SEED=$s PYTHONHASHSEED=0 timeout 1500 /venv/bin/python -m sim.runner $c --tier quick --no-evidence --no-selftest --workers 16 --digests $tmp/a.txt >/dev/null 2>&1
    VERIF_SEED=$s PYTHONHASHSEED=31337 timeout 2400 /venv/bin/python -m sim.runner $c --tier quick --no-evidence --no-selftest --workers 5 --wall 2000 --digests $tmp/b.txt >/dev/null 2>&1
    n=$(wc -l < $tmp/a.txt); total=$((total+n))
    d=$(diff $tmp/a.txt $tmp/b.txt | grep -c '^[<>]')
    echo "seed=$s $c runs=$n differing_lines=$d"
    if [ "$d" != "0" ]; then bad=$((bad+1)); diff $tmp/a.txt $tmp/b.txt | head -6; fi
  done
done
rm -rf $tmp
echo "determinism: $total runs compared twice, $bad (seed, check) pairs with a difference"
[ $bad -eq 0 ]
